#!/venv/bin/python
"""Entry point:  check.py <C10|C13|C16> [--tier quick|thorough]   |   check.py --replay <file>"""
import os
import sys

sys.path.insert(0, os.path.dirname(os.path.abspath(__file__)))
sys.dont_write_bytecode = True

from dsim import launcher  # noqa: E402

if __name__ == '__main__':
  sys.exit(launcher.main())
