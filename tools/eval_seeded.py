#!/venv/bin/python
"""Confirm a seeded change and run the checks against it.

usage: eval_seeded.py <candidate dir with patch.diff/demo.py/meta.json> <seeded id> [--in-repo] [--tier quick] [--seeds 0,1]

Steps (all in a scratch worktree of /repo unless --in-repo):
  1. patch applies; 2. baseline suite: 0 regressed; 3. demo FAILs with the patch;
  4. demo PASSes without it; 5. the property's check reports a VIOLATION against
  the patched tree (and the replay reproduces); 6. worktree removed.
Writes /verif/seeded/<id>/{patch.diff,demo.py,meta.json}.
"""
import json
import os
import shutil
import subprocess
import sys
import time

VERIF = os.path.dirname(os.path.dirname(os.path.abspath(__file__)))


def sh(cmd, **kw):
  return subprocess.run(cmd, shell=isinstance(cmd, str), capture_output=True, text=True, **kw)


def main():
  args = [a for a in sys.argv[1:] if not a.startswith('--')]
  flags = [a for a in sys.argv[1:] if a.startswith('--')]
  cand, sid = args[0], args[1]
  seeds = [0]
  tier = 'quick'
  for f in flags:
    if f.startswith('--seeds='):
      seeds = [int(x) for x in f.split('=')[1].split(',')]
    if f.startswith('--tier='):
      tier = f.split('=')[1]
  in_repo = '--in-repo' in flags
  recheck = '--recheck' in flags      # confirmation (demo, baseline) was done before: only run the check again
  meta = json.load(open(os.path.join(cand, 'meta.json')))
  prop = meta.get('property')
  # a change written against one property may be caught by another property's check (recorded in meta.json)
  check_prop = meta.get('checked_with') or prop
  out = os.path.join(VERIF, 'seeded', sid)
  os.makedirs(out, exist_ok=True)
  for f in ('patch.diff', 'demo.py'):
    if os.path.abspath(cand) != os.path.abspath(out):
      shutil.copy(os.path.join(cand, f), os.path.join(out, f))
  notes = meta.get('notes')
  patch = os.path.join(out, 'patch.diff')
  demo = os.path.join(out, 'demo.py')
  log = []
  wt = '/repo' if in_repo else '/tmp/wt-eval-%s' % sid
  if not in_repo:
    sh('git -C /repo worktree remove --force %s' % wt)
    r = sh('git -C /repo worktree add --detach %s HEAD' % wt)
    assert r.returncode == 0, r.stderr
  res = {}
  try:
    old_ran = meta.get('what_i_ran') or {}
    if recheck:
      res['demo_without_patch'] = old_ran.get('demo_without_patch')
    else:
      r = sh('/venv/bin/python %s %s' % (demo, wt), timeout=600)
      res['demo_without_patch'] = 'PASS' if r.returncode == 0 else 'FAIL(rc=%d)' % r.returncode
    r = sh('git -C %s apply %s' % (wt, patch))
    res['patch_applies'] = r.returncode == 0
    if not res['patch_applies']:
      print('patch does not apply:', r.stderr)
    else:
      if recheck:
        res['demo_with_patch'] = old_ran.get('demo_with_patch')
        res['baseline'] = old_ran.get('baseline_with_patch')
        res['baseline_ok'] = bool(meta.get('confirmed'))
      else:
        r = sh('/venv/bin/python %s %s' % (demo, wt), timeout=600)
        res['demo_with_patch'] = 'FAIL' if r.returncode == 1 else 'rc=%d' % r.returncode
        r = sh('%s/tools/baseline.sh %s' % (VERIF, wt), timeout=1800)
        res['baseline'] = r.stdout.strip().splitlines()[0] if r.stdout.strip() else 'no output'
        res['baseline_ok'] = r.returncode == 0
      det = []
      # keep the committed evidence file: these runs are against a patched tree
      ev = os.path.join(VERIF, 'evidence', '%s.json' % check_prop)
      ev_old = open(ev).read() if os.path.exists(ev) else None
      try:
        for s in seeds:
          t0 = time.time()
          r = sh('%s/check.py %s --tier %s --seed %d --repo %s' % (VERIF, check_prop, tier, s, wt), timeout=7200)
          viol = [l for l in r.stdout.splitlines() if l.startswith('VIOLATION')]
          rules = [l.strip() for l in r.stdout.splitlines() if l.startswith('  ') and ': ' in l and
                   l.strip().split(':')[0] in ('R1', 'R2', 'R3', 'R4', 'R5', 'R6', 'R7', 'R8', 'S1', 'S2', 'S3',
                                               'S4', 'S5', 'T1', 'T2', 'T3', 'T4', 'T5', 'T6', 'T7')]
          d = {'seed': s, 'tier': tier, 'exit': r.returncode, 'violations': len(viol),
               'first': rules[:2], 'wall_s': round(time.time() - t0, 1)}
          if viol:
            path = viol[0].split('replay=')[1]
            rr = sh('%s/check.py --replay %s --repo %s' % (VERIF, path, wt), timeout=600)
            d['replay_exit'] = rr.returncode
            keep = os.path.join(out, 'replay.json')
            shutil.copy(path, keep)
            for v in viol:
              try:
                os.remove(v.split('replay=')[1])
              except OSError:
                pass
          else:
            d['tail'] = r.stdout[-600:]
          det.append(d)
          if viol:
            break
      finally:
        if ev_old is not None:
          open(ev, 'w').write(ev_old)
      res['check_runs'] = det
      res['detected'] = any(d['violations'] for d in det)
  finally:
    if in_repo:
      sh('git -C /repo checkout -- .')
    else:
      sh('git -C /repo worktree remove --force %s' % wt)
  confirmed = (res.get('patch_applies') and res.get('baseline_ok') and
               res.get('demo_with_patch') == 'FAIL' and res.get('demo_without_patch') == 'PASS')
  meta_out = {
      'id': sid, 'property': prop, 'title': meta.get('title'),
      'what_breaks': meta.get('what_breaks'), 'needs_to_manifest': meta.get('needs_to_manifest'),
      'files_touched': meta.get('files_touched'), 'why_tests_still_pass': meta.get('why_tests_still_pass'),
      'origin': 'written by an independent sub-agent that saw only the property text',
      'confirmed': bool(confirmed),
      'what_i_ran': {
          'worktree': 'scratch worktree of /repo HEAD' if not in_repo else '/repo itself (applied, checked, reverted)',
          'demo_without_patch': res.get('demo_without_patch'), 'demo_with_patch': res.get('demo_with_patch'),
          'baseline_with_patch': res.get('baseline'),
          'check': res.get('check_runs'),
      },
      'detected_by_check': res.get('detected'),
  }
  if notes:
    meta_out['notes'] = notes
  if check_prop != prop:
    meta_out['checked_with'] = check_prop
  for k in ('rebased', 'first_pass_detected'):
    if k in meta:
      meta_out[k] = meta[k]
  json.dump(meta_out, open(os.path.join(out, 'meta.json'), 'w'), indent=1)
  print(json.dumps({'id': sid, 'confirmed': confirmed, 'detected': res.get('detected'),
                    'runs': res.get('check_runs')}, indent=1)[:1500])


if __name__ == '__main__':
  main()
