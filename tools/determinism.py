#!/venv/bin/python
"""Determinism stress (development tool): runs N seeded jobs R times each, spread over all lanes
(different lane histories), plus once in fresh interpreters with other PYTHONHASHSEEDs, and reports
every job whose (digest, steps, status) is not identical in all executions.

usage: determinism.py <C10|C13|C16> [--jobs N] [--reps R] [--seed S] [--tier quick|thorough] [--repo DIR]
"""
import argparse, collections, os, random, sys
sys.path.insert(0, os.path.dirname(os.path.dirname(os.path.abspath(__file__))))
from dsim import launcher

ap = argparse.ArgumentParser()
ap.add_argument('prop'); ap.add_argument('--jobs', type=int, default=200); ap.add_argument('--reps', type=int, default=4)
ap.add_argument('--seed', type=int, default=0); ap.add_argument('--tier', default='quick'); ap.add_argument('--repo', default='/repo')
a = ap.parse_args()
subs = launcher.TIERS[a.prop][a.tier]['subs']
jobs = []
rng = random.Random(a.seed)
for k in range(a.jobs):
  sub = rng.choice(sorted(subs))
  jobs.append({'prop': a.prop, 'mode': 'seed', 'seed': a.seed, 'index': rng.randrange(subs[sub]), 'tier': a.tier, 'sub': sub})
allj = [dict(j) for j in jobs for _ in range(a.reps)]
order = list(range(len(allj)))
rng.shuffle(order)
pool = launcher.Pool(a.repo, [a.prop], 16)
rs = pool.map([allj[i] for i in order], 180)
pool.close()
pool2 = launcher.Pool(a.repo, [a.prop], 4, hashseeds=['7', '12345', '99', 'random'])
rs2 = pool2.map(jobs, 180)
pool2.close()
res = collections.defaultdict(list)
for i, r in zip(order, rs):
  res[i // a.reps].append((r.get('digest'), r.get('steps'), r.get('status')))
for k, r in enumerate(rs2):
  res[k].append((r.get('digest'), r.get('steps'), r.get('status')))
bad = {k: collections.Counter(v) for k, v in res.items() if len(set(v)) > 1}
print('%s: %d jobs x (%d + 1) executions, %d jobs with divergent executions' % (a.prop, a.jobs, a.reps, len(bad)))
for k, c in list(bad.items())[:10]:
  print('  ', jobs[k], dict((str(x)[:40], n) for x, n in c.items()))
sys.exit(1 if bad else 0)
