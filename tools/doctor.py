#!/venv/bin/python
"""setup_cmd: verifies the offline prerequisites; builds nothing (pure Python harness)."""
import os, subprocess, sys
ok = True
def need(cond, msg):
  global ok
  print(('ok   ' if cond else 'FAIL ') + msg)
  ok = ok and cond
need(sys.version_info >= (3, 8), 'python %s' % sys.version.split()[0])
need(hasattr(os, 'fork'), 'os.fork available')
need(os.path.isdir('/repo/malt') or bool(os.environ.get('VERIF_REPO')), 'repository present')
try:
  r = subprocess.run(['setarch', '-R', 'true'], capture_output=True, timeout=20)
  print('info setarch -R %s' % ('works' if r.returncode == 0 else 'unavailable (ASLR stays on; digests do not depend on it)'))
except Exception as e:
  print('info setarch unavailable: %s' % e)
print('info sys.monitoring %s' % ('available' if hasattr(sys, 'monitoring') else 'missing: falling back to sys.settrace'))
import compileall
here = os.path.dirname(os.path.dirname(os.path.abspath(__file__)))
need(compileall.compile_dir(os.path.join(here, 'dsim'), quiet=1, legacy=False, optimize=0), 'harness compiles')
sys.exit(0 if ok else 1)
