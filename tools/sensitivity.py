#!/venv/bin/python
"""Development tool (not a registered check): apply one textual mutant at a
time to a scratch copy of /repo and require the quick check to report a
VIOLATION that replays.  Anchors are tied to the pinned text.

usage: sensitivity.py [mutant-name ...]     (default: all)
"""
import os
import shutil
import subprocess
import sys
import tempfile
import json
import time

VERIF = os.path.dirname(os.path.dirname(os.path.abspath(__file__)))

# (name, property, file, old, new)
MUTANTS = [
    ('c16-global-stack', 'C16', 'malt/core/ag_ctx.py',
     "stacks = threading.local()",
     "class _Stacks(object):\n  pass\nstacks = _Stacks()"),
    ('c16-fscope-exit-skips-on-exc', 'C16', 'malt/operators/function_wrappers.py',
     "  def __exit__(self, exc_type, exc_val, exc_tb):\n    if self.options.user_requested:",
     "  def __exit__(self, exc_type, exc_val, exc_tb):\n    if self.options.user_requested and exc_type is None:"),
    ('c16-dnc-no-with', 'C16', 'malt/impl/api.py',
     "    with ag_ctx.ControlStatusCtx(status=ag_ctx.Status.DISABLED):\n      return func(*args, **kwargs)",
     "    c = ag_ctx.ControlStatusCtx(status=ag_ctx.Status.DISABLED)\n    c.__enter__()\n    r = func(*args, **kwargs)\n    c.__exit__(None, None, None)\n    return r"),
    ('c16-fscope-wrong-flag', 'C16', 'malt/operators/function_wrappers.py',
     "  def __enter__(self):\n    if self.options.user_requested:\n      self.autograph_ctx.__enter__()",
     "  def __enter__(self):\n    if self.options.user_requested and self.options.recursive:\n      self.autograph_ctx.__enter__()"),
    ('c16-convert-skips-ctx', 'C16', 'malt/impl/api.py',
     "        with conversion_ctx:\n          return converted_call(f, args, kwargs, options=options)",
     "        if True:\n          return converted_call(f, args, kwargs, options=options)"),
    ('c16-unspec-leaks-on-exc', 'C16', 'malt/impl/api.py',
     "    with ag_ctx.ControlStatusCtx(status=ag_ctx.Status.UNSPECIFIED):\n      return func(*args, **kwargs)",
     "    c = ag_ctx.ControlStatusCtx(status=ag_ctx.Status.UNSPECIFIED)\n    c.__enter__()\n    try:\n      r = func(*args, **kwargs)\n    except KeyError:\n      c.__exit__(None, None, None)\n      raise\n    c.__exit__(None, None, None)\n    return r"),
    # ---- C10 ----
    ('c10-no-recheck-under-lock', 'C10', 'malt/pyct/transpiler.py',
     "        # Check again under lock.\n        if self._cache.has(fn, cache_subkey):",
     "        # Check again under lock.\n        if False and self._cache.has(fn, cache_subkey):"),
    ('c10-no-lock', 'C10', 'malt/pyct/transpiler.py',
     "      with self._cache_lock:\n        # Check again under lock.",
     "      if True:\n        # Check again under lock."),
    ('c10-key-by-qualname', 'C10', 'malt/pyct/cache.py',
     "    if hasattr(entity, '__code__'):\n      return entity.__code__\n    else:\n      return entity",
     "    if hasattr(entity, '__code__'):\n      return _qual_key(entity)\n    else:\n      return entity\n\n\nclass _Q(object):\n  pass\n\n_QUAL = {}\n\ndef _qual_key(entity):\n  k = (getattr(entity, '__module__', None), getattr(entity, '__qualname__', None), entity.__code__.co_firstlineno)\n  if k not in _QUAL:\n    _QUAL[k] = _Q()\n  return _QUAL[k]"),
    ('c10-subkey-ignores-user-requested', 'C10', 'malt/impl/api.py',
     "  def get_caching_key(self, ctx):\n    return ctx.options",
     "  def get_caching_key(self, ctx):\n    o = ctx.options\n    return (o.recursive, o.internal_convert_user_code, o.optional_features)"),
    ('c10-options-eq-ignores-features', 'C10', 'malt/core/converter.py',
     "  def as_tuple(self):\n    return (self.recursive, self.user_requested,\n            self.internal_convert_user_code, self.optional_features)",
     "  def as_tuple(self):\n    return (self.recursive, self.user_requested,\n            self.internal_convert_user_code, len(self.optional_features))"),
    ('c10-cache-instantiated-fn', 'C10', 'malt/pyct/transpiler.py',
     "    transformed_fn = factory.instantiate(\n        globals_=fn.__globals__,",
     "    if getattr(factory, '_inst', None) is not None:\n      return factory._inst, factory.module, factory.source_map\n    transformed_fn = factory._inst = factory.instantiate(\n        globals_=fn.__globals__,"),
    ('c10-factory-remembers-first-defaults', 'C10', 'malt/pyct/transpiler.py',
     "    if defaults:\n      new_fn.__defaults__ = defaults",
     "    if defaults:\n      if getattr(self, '_first_defaults', None) is None:\n        self._first_defaults = defaults\n      new_fn.__defaults__ = self._first_defaults"),
    ('c10-has-tests-bucket-only', 'C10', 'malt/pyct/cache.py',
     "    if parent is None:\n      return False\n    return subkey in parent",
     "    if parent is None:\n      return False\n    return bool(parent) or subkey in parent"),
    ('c10-store-before-create', 'C10', 'malt/pyct/transpiler.py',
     "          factory.create(\n              nodes, ctx.namer, future_features=ctx.info.future_features)\n          self._cache[fn][cache_subkey] = factory",
     "          self._cache[fn][cache_subkey] = factory\n          factory.create(\n              nodes, ctx.namer, future_features=ctx.info.future_features)"),
    ('c10-lock-no-finally', 'C10', 'malt/pyct/transpiler.py',
     "      with self._cache_lock:\n        # Check again under lock.",
     "      self._cache_lock.acquire()\n      if True:\n        # Check again under lock."),
    # ---- C13 ----
    ('c13-narrow-except', 'C13', 'malt/impl/api.py',
     "    converted_f = _convert_actual(target_entity, program_ctx)\n    if logging.has_verbosity(2):\n      _log_callargs(converted_f, effective_args, kwargs)\n  except Exception as e:  # pylint:disable=broad-except",
     "    converted_f = _convert_actual(target_entity, program_ctx)\n    if logging.has_verbosity(2):\n      _log_callargs(converted_f, effective_args, kwargs)\n  except (ValueError, TypeError, NotImplementedError, AttributeError, KeyError, AssertionError, SyntaxError, NameError, RuntimeError, IndexError) as e:  # pylint:disable=broad-except"),
    ('c13-fallback-not-recorded', 'C13', 'malt/impl/api.py',
     "    logging.warning(warning_template, f, file_bug_message, exc)\n\n  return _call_unconverted(f, args, kwargs, options)",
     "    logging.warning(warning_template, f, file_bug_message, exc)\n\n  return _call_unconverted(f, args, kwargs, options, False)"),
    ('c13-fallback-effective-args', 'C13', 'malt/impl/api.py',
     "    if is_autograph_strict_conversion_mode():\n      raise\n    return _fall_back_unconverted(f, args, kwargs, options, e)\n\n  # (dime10) strip stack trace",
     "    if is_autograph_strict_conversion_mode():\n      raise\n    return _fall_back_unconverted(f, effective_args, kwargs, options, e)\n\n  # (dime10) strip stack trace"),
    ('c13-partial-kw-precedence', 'C13', 'malt/impl/api.py',
     "      new_kwargs = f.keywords.copy()\n    if kwargs is not None:\n      new_kwargs.update(kwargs)",
     "      new_kwargs = f.keywords.copy()\n    if kwargs is not None:\n      new_kwargs = dict(kwargs, **new_kwargs)"),
    ('c13-no-artifact-check', 'C13', 'malt/impl/api.py',
     "  if is_autograph_artifact(f):\n    logging.log(2, 'Permanently allowed: %s: AutoGraph artifact', f)\n    return _call_unconverted(f, args, kwargs, options)",
     "  if False and is_autograph_artifact(f):\n    logging.log(2, 'Permanently allowed: %s: AutoGraph artifact', f)\n    return _call_unconverted(f, args, kwargs, options)"),
    ('c13-no-disabled-check', 'C13', 'malt/impl/api.py',
     "  if ag_ctx.control_status_ctx().status == ag_ctx.Status.DISABLED:",
     "  if ag_ctx.control_status_ctx().status == ag_ctx.Status.DISABLED and options.user_requested:"),
    ('c13-strict-ignored-in-convert', 'C13', 'malt/impl/api.py',
     "      _log_callargs(converted_f, effective_args, kwargs)\n  except Exception as e:  # pylint:disable=broad-except\n    logging.log(1, 'Error transforming entity %s', target_entity, exc_info=True)\n    if is_autograph_strict_conversion_mode():\n      raise",
     "      _log_callargs(converted_f, effective_args, kwargs)\n  except Exception as e:  # pylint:disable=broad-except\n    logging.log(1, 'Error transforming entity %s', target_entity, exc_info=True)\n    if is_autograph_strict_conversion_mode() and isinstance(e, errors.PyCTError):\n      raise"),
    ('c13-allowlist-bare-prefix', 'C13', 'malt/core/config_lib.py',
     "    return (module_name.startswith(self._prefix + '.') or\n            module_name == self._prefix)",
     "    return module_name.startswith(self._prefix)"),
    ('c13-empty-kwargs-dropped', 'C13', 'malt/impl/api.py',
     "    if kwargs is not None:\n      new_kwargs.update(kwargs)\n    new_args = f.args + args",
     "    if kwargs:\n      new_kwargs.update(kwargs)\n    else:\n      new_kwargs = {} if kwargs is not None else new_kwargs\n    new_args = f.args + args"),
    ('c13-warning-removed', 'C13', 'malt/impl/api.py',
     "    logging.warning(warning_template, f, file_bug_message, exc)\n\n  return _call_unconverted",
     "    logging.log(1, warning_template, f, file_bug_message, exc)\n\n  return _call_unconverted"),
    ('c13-generator-converted', 'C13', 'malt/impl/conversion.py',
     "  if hasattr(o, '__code__') and inspect.isgeneratorfunction(o):",
     "  if False and hasattr(o, '__code__') and inspect.isgeneratorfunction(o):"),
    ('c13-wrapt-converted', 'C13', 'malt/impl/conversion.py',
     "  if (_is_known_loaded_type(o, 'wrapt', 'FunctionWrapper') or",
     "  if (_is_known_loaded_type(o, 'wrapt', 'FunctionWrapperX') or"),
    ('c13-internal-convert-user-code-ignored', 'C13', 'malt/impl/api.py',
     "  if not options.internal_convert_user_code:\n    return _call_unconverted(f, args, kwargs, options)",
     "  if not options.internal_convert_user_code and not options.recursive:\n    return _call_unconverted(f, args, kwargs, options)"),
    ('c13-revert-f2', 'C13', None, 'git-revert', '82800c3'),
    ('c13-revert-f4', 'C13', None, 'git-revert', 'bd2ad2a'),
    ('c10-revert-f1', 'C10', None, 'git-revert', '5e04fcf'),
    ('c10-revert-f3', 'C10', None, 'git-revert', 'f98cffd'),
]


def run(name, prop, rel, old, new, extra):
  tmp = tempfile.mkdtemp(prefix='dsim-mut-')
  repo = os.path.join(tmp, 'repo')
  try:
    # the committed tree (never the working copy, which another tool may be patching)
    os.makedirs(repo)
    subprocess.run('git -C /repo archive HEAD | tar -x -C %s' % repo, shell=True, check=True)
    if old == 'git-revert':
      d = subprocess.run(['git', '-C', '/repo', 'show', new], capture_output=True, text=True).stdout
      r = subprocess.run(['patch', '-R', '-p1', '-d', repo], input=d, capture_output=True, text=True)
      if r.returncode != 0:
        return name, 'ANCHOR-MISSING (patch -R failed)', r.stdout[-300:]
    else:
      p = os.path.join(repo, rel)
      s = open(p).read()
      if s.count(old) != 1:
        return name, 'ANCHOR-MISSING', ''
      open(p, 'w').write(s.replace(old, new))
    t0 = time.time()
    r = subprocess.run([os.path.join(VERIF, 'check.py'), prop, '--tier', 'quick', '--repo', repo] + extra,
                       capture_output=True, text=True, timeout=1800)
    dt = time.time() - t0
    viol = [l for l in r.stdout.splitlines() if l.startswith('VIOLATION')]
    detail = [l for l in r.stdout.splitlines() if l.strip().startswith(('S', 'R', 'T')) and ':' in l][:3]
    status = 'CAUGHT' if (r.returncode == 1 and viol) else 'MISSED(rc=%d)' % r.returncode
    rep = ''
    if viol:
      path = viol[0].split('replay=')[1]
      rr = subprocess.run([os.path.join(VERIF, 'check.py'), '--replay', path, '--repo', repo],
                          capture_output=True, text=True, timeout=600)
      rep = 'replay-rc=%d' % rr.returncode
      keep = os.environ.get('KEEP_REPLAY_AS')
      if keep and rr.returncode == 1:
        shutil.copy(path, keep)
      for v in viol:
        try:
          os.remove(v.split('replay=')[1])
        except OSError:
          pass
    tail = '' if status == 'CAUGHT' else r.stdout[-1500:]
    return name, '%s %s %.0fs %s' % (status, rep, dt, '; '.join(d.strip() for d in detail)), tail
  finally:
    shutil.rmtree(tmp, ignore_errors=True)


def main():
  want = [a for a in sys.argv[1:] if not a.startswith('-')]
  extra = [a for a in sys.argv[1:] if a.startswith('-')]
  ev_backup = {}
  for f in os.listdir(os.path.join(VERIF, 'evidence')):
    ev_backup[f] = open(os.path.join(VERIF, 'evidence', f)).read()
  try:
    for m in MUTANTS:
      if want and m[0] not in want and m[1] not in want:
        continue
      name, res, tail = run(*m, extra)
      print('%-34s %s' % (name, res), flush=True)
      if tail:
        print(tail)
  finally:
    for f, s in ev_backup.items():
      open(os.path.join(VERIF, 'evidence', f), 'w').write(s)


if __name__ == '__main__':
  main()
