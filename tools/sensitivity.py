#!/venv/bin/python
"""Development tool (not a registered check): apply one textual mutant at a
time to a scratch copy of /repo and require the quick check to report a
VIOLATION that replays.  Anchors are tied to the pinned text.

usage: sensitivity.py [mutant-name ...]     (default: all)
"""
import os
import shutil
import subprocess
import sys
import tempfile
import json
import time

VERIF = os.path.dirname(os.path.dirname(os.path.abspath(__file__)))

# (name, property, file, old, new)
MUTANTS = [
    ('c16-global-stack', 'C16', 'malt/core/ag_ctx.py',
     "stacks = threading.local()",
     "class _Stacks(object):\n  pass\nstacks = _Stacks()"),
    ('c16-fscope-exit-skips-on-exc', 'C16', 'malt/operators/function_wrappers.py',
     "  def __exit__(self, exc_type, exc_val, exc_tb):\n    if self.options.user_requested:",
     "  def __exit__(self, exc_type, exc_val, exc_tb):\n    if self.options.user_requested and exc_type is None:"),
    ('c16-dnc-no-with', 'C16', 'malt/impl/api.py',
     "    with ag_ctx.ControlStatusCtx(status=ag_ctx.Status.DISABLED):\n      return func(*args, **kwargs)",
     "    c = ag_ctx.ControlStatusCtx(status=ag_ctx.Status.DISABLED)\n    c.__enter__()\n    r = func(*args, **kwargs)\n    c.__exit__(None, None, None)\n    return r"),
    ('c16-fscope-wrong-flag', 'C16', 'malt/operators/function_wrappers.py',
     "  def __enter__(self):\n    if self.options.user_requested:\n      self.autograph_ctx.__enter__()",
     "  def __enter__(self):\n    if self.options.user_requested and self.options.recursive:\n      self.autograph_ctx.__enter__()"),
    ('c16-convert-skips-ctx', 'C16', 'malt/impl/api.py',
     "        with conversion_ctx:\n          return converted_call(f, args, kwargs, options=options)",
     "        if True:\n          return converted_call(f, args, kwargs, options=options)"),
    ('c16-pop-no-identity', 'C16', 'malt/core/ag_ctx.py',
     "    assert _control_ctx()[-1] is self\n    _control_ctx().pop()",
     "    if _control_ctx()[-1] is self:\n      _control_ctx().pop()\n    elif len(_control_ctx()) > 2:\n      _control_ctx().pop()\n      _control_ctx().pop()"),
    ('c16-unspec-leaks-on-exc', 'C16', 'malt/impl/api.py',
     "    with ag_ctx.ControlStatusCtx(status=ag_ctx.Status.UNSPECIFIED):\n      return func(*args, **kwargs)",
     "    c = ag_ctx.ControlStatusCtx(status=ag_ctx.Status.UNSPECIFIED)\n    c.__enter__()\n    try:\n      r = func(*args, **kwargs)\n    except KeyError:\n      c.__exit__(None, None, None)\n      raise\n    c.__exit__(None, None, None)\n    return r"),
]


def run(name, prop, rel, old, new, extra):
  tmp = tempfile.mkdtemp(prefix='dsim-mut-')
  repo = os.path.join(tmp, 'repo')
  try:
    shutil.copytree('/repo', repo, ignore=shutil.ignore_patterns('.git', '*.egg-info', '__pycache__'))
    p = os.path.join(repo, rel)
    s = open(p).read()
    if s.count(old) != 1:
      return name, 'ANCHOR-MISSING', ''
    open(p, 'w').write(s.replace(old, new))
    t0 = time.time()
    r = subprocess.run([os.path.join(VERIF, 'check.py'), prop, '--tier', 'quick', '--repo', repo] + extra,
                       capture_output=True, text=True, timeout=1800)
    dt = time.time() - t0
    viol = [l for l in r.stdout.splitlines() if l.startswith('VIOLATION')]
    detail = [l for l in r.stdout.splitlines() if l.strip().startswith(('S', 'R', 'T')) and ':' in l][:3]
    status = 'CAUGHT' if (r.returncode == 1 and viol) else 'MISSED(rc=%d)' % r.returncode
    rep = ''
    if viol:
      path = viol[0].split('replay=')[1]
      rr = subprocess.run([os.path.join(VERIF, 'check.py'), '--replay', path, '--repo', repo],
                          capture_output=True, text=True, timeout=600)
      rep = 'replay-rc=%d' % rr.returncode
      for v in viol:
        try:
          os.remove(v.split('replay=')[1])
        except OSError:
          pass
    tail = '' if status == 'CAUGHT' else r.stdout[-1500:]
    return name, '%s %s %.0fs %s' % (status, rep, dt, '; '.join(d.strip() for d in detail)), tail
  finally:
    shutil.rmtree(tmp, ignore_errors=True)


def main():
  want = [a for a in sys.argv[1:] if not a.startswith('-')]
  extra = [a for a in sys.argv[1:] if a.startswith('-')]
  ev_backup = {}
  for f in os.listdir(os.path.join(VERIF, 'evidence')):
    ev_backup[f] = open(os.path.join(VERIF, 'evidence', f)).read()
  try:
    for m in MUTANTS:
      if want and m[0] not in want and m[1] not in want:
        continue
      name, res, tail = run(*m, extra)
      print('%-34s %s' % (name, res), flush=True)
      if tail:
        print(tail)
  finally:
    for f, s in ev_backup.items():
      open(os.path.join(VERIF, 'evidence', f), 'w').write(s)


if __name__ == '__main__':
  main()
