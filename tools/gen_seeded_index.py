#!/usr/bin/env python3
"""Writes seeded/INDEX.md from the meta.json files."""
import json, os
V = os.path.dirname(os.path.dirname(os.path.abspath(__file__)))
rows = []


def _needed(notes):
  if not notes:
    return ''
  head = notes[:60].lower()
  if 'not detected' in head:
    return 'undetectable (limit)'
  if head.startswith('detected at first') or 'first pass: detected' in head or 'first pass (' in head and 'detected' in head:
    return ''
  return 'yes'


for sid in sorted(os.listdir(os.path.join(V, 'seeded'))):
  p = os.path.join(V, 'seeded', sid, 'meta.json')
  if not os.path.exists(p):
    continue
  m = json.load(open(p))
  runs = (m.get('what_i_ran') or {}).get('check') or []
  first = ''
  for r in runs:
    if r.get('first'):
      first = r['first'][0].split(':')[0]
      break
  det = m.get('detected_by_check')
  if m.get('checked_with'):
    det = '%s (by the %s check)' % (det, m['checked_with'])
  rows.append((sid, m.get('property'), (m.get('title') or '')[:90], m.get('confirmed'), det,
               first, _needed(m.get('notes')), (m.get('needs_to_manifest') or '')[:160].replace('\n', ' ')))
out = ['# Seeded changes (written by independent sub-agents from the property text only)', '',
       'Each directory holds `patch.diff`, the author\'s `demo.py` (PASS without / FAIL with the patch), `meta.json`',
       '(what it breaks, what it needs to manifest, what was run) and the minimised `replay.json` the check produced.',
       'Confirmed = patch applies, baseline suite 0 regressed, demo fails with and passes without the patch.', '',
       '| id | property | change | confirmed | detected by its check | first rule | needed strengthening | needs |',
       '|---|---|---|---|---|---|---|---|']
for r in rows:
  out.append('| %s | %s | %s | %s | %s | %s | %s | %s |' % r)
out.append('')
out.append('"needed strengthening = yes": the change was missed by the check as it stood when the change arrived; see `notes` in its meta.json for what was added. All listed changes but c10-o1 (a stated limit) are detected by the committed checks (quick tier).')
open(os.path.join(V, 'seeded', 'INDEX.md'), 'w').write('\n'.join(out) + '\n')
print('\n'.join(out))
