"""Debug helper: run one job in-process (no lanes/fork) and print a histogram of pre-emption sites."""
import sys, os, json, collections, tempfile, shutil, time
sys.path.insert(0, '/verif')
sys.dont_write_bytecode = True
from dsim import lane as lane_mod
prop = sys.argv[1]
job = json.loads(sys.argv[2])
job['prop'] = prop
job.setdefault('mode', 'seed'); job.setdefault('tier', 'quick'); job.setdefault('sub', 'clean'); job.setdefault('seed', 0); job.setdefault('index', 0)
job['keep_log'] = True
scratch = tempfile.mkdtemp(prefix='dsimdbg')
L = lane_mod.Lane(os.environ.get('VERIF_REPO', '/repo'), scratch, 0, [prop])
t0 = time.time(); L.boot(); print('boot %.2fs' % (time.time() - t0))
rdir = os.path.join(L.scratch, 'run'); os.makedirs(rdir)
tempfile.tempdir = rdir
prep = None
t0 = time.time()
if prep: prep(L, job); print('prepare %.2fs' % (time.time() - t0))
t0 = time.time()
res = L.props[prop].run_job(L, job, rdir)
print('run %.2fs' % (time.time() - t0))
log = res.pop('log', [])
h = collections.Counter()
for rec in log:
  # '<tid><kind><a>:<b>;'
  import re
  m = re.match(r'(-?\d+)([A-Za-z])(.*):(.*);$', rec)
  if m and m.group(2) == 'L':
    h[m.group(3)] += 1
  elif m:
    h['<' + m.group(2) + '>'] += 1
for k, v in h.most_common(40):
  print('%8d %s' % (v, k))
res.pop('plan', None); sch = res.pop('schedule', None)
if os.environ.get('DBG_OUT'):
  json.dump(res, open(os.environ['DBG_OUT'], 'w'))
print(json.dumps(res, indent=1)[:3000])
shutil.rmtree(scratch, ignore_errors=True)
