#!/bin/bash
# usage: baseline.sh <repo dir>   -> runs the pinned test suite there and compares with BASELINE.json stable_pass
REPO=${1:-/repo}
OUT=$(mktemp /tmp/junit-XXXXXX.xml)
(cd "$REPO" && timeout 1500 /venv/bin/python -m pytest -q -p no:cacheprovider --timeout=900 --continue-on-collection-errors --junitxml="$OUT" >/dev/null 2>&1)
/venv/bin/python - "$OUT" <<'PY'
import json, sys, xml.etree.ElementTree as ET
base = json.load(open('/root/.vp/BASELINE.json'))
want = set(base['stable_pass'])
t = ET.parse(sys.argv[1])
passed = set()
for tc in t.iter('testcase'):
    if any(c.tag in ('failure', 'error', 'skipped') for c in tc):
        continue
    passed.add('%s::%s' % (tc.get('classname'), tc.get('name')))
missing = sorted(want - passed)
print('baseline: %d stable tests, %d pass now, %d regressed' % (len(want), len(want & passed), len(missing)))
for m in missing[:20]:
    print('  REGRESSED', m)
sys.exit(1 if missing else 0)
PY
RC=$?
rm -f "$OUT"
exit $RC
