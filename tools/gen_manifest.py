#!/usr/bin/env python3
"""Writes MANIFEST.json (kept in a script so the N/A reasons and check texts live in one place)."""
import json, os
V = os.path.dirname(os.path.dirname(os.path.abspath(__file__)))
BASE = json.load(open('/root/.vp/BASELINE.json')) if os.path.exists('/root/.vp/BASELINE.json') else {}

NA = {
 'C01': 'pure function of (program, input, options): decided only by generated programs with a differential oracle; the one environmental axis (PYTHONHASHSEED) is a process-start configuration, not a schedule or fault',
 'C02': 'a second deterministic operator semantics over generated programs; no schedule, clock, fault or history decides which state the converter emitted',
 'C03': 'per-call-site structural fact of generated code over all programs and inputs; nothing scheduled or faulted',
 'C04': 'syntactic property of the output AST for all programs and contexts; nothing scheduled or faulted',
 'C05': 'graph construction is a pure function of the AST; oracle is the interpreter trace of generated programs',
 'C06': 'pure dataflow over the CFG; needs a last-writer oracle on generated programs',
 'C07': 'pure dataflow over the CFG; needs a later-read oracle on generated programs',
 'C08': 'pure static analysis; oracle is CPython symtable on generated programs',
 'C09': 'function of signature and closure shape (input enumeration); the history-dependent slice (factory reuse across functions sharing code) is exercised inside the C10 oracle (R2/R3)',
 'C11': 'all programs with adversarial identifiers; the name generator is per conversion with no shared state, schedule or fault',
 'C12': 'all programs x failing statement positions; deterministic given program and input',
 'C14': 'input-space property of pure wrapper functions; the frame-sensitive builtins walk the calling thread\'s own stack only',
 'C15': 'all source layouts: text processing of one string; no schedule, fault or history',
 'C17': 'all programs x options; the only I/O is write-then-read by the same process, whose failures raise and are injected as C13 fault stages',
 'C18': 'pure AST transformer over generated programs; oracle is executing both versions',
 'C19': 'pure dataflow; oracle is the run-time types of generated programs',
 'C20': 'finite configuration space (1024 values) whose complete enumeration is model checking by definition, not seeded search; its role as cache key is exercised by C10 (R4)',
}

def chk(pid, cat, text, note, tech, ref):
  return {
    'property_id': pid,
    'quick_cmd': '/venv/bin/python check.py %s --tier quick' % pid,
    'thorough_cmd': '/venv/bin/python check.py %s --tier thorough' % pid,
    'evidence_file': 'evidence/%s.json' % pid,
    'replay_cmd_template': '/venv/bin/python check.py --replay {path}',
    'engine': 'dsim',
    'level_claimed': {'category': cat, 'text': text, 'design_ref': ref},
    'level_note': note,
    'technique': tech,
  }

CHECKS = {
 'C16': chk('C16', 'exploration',
   'Seeded search over call trees x thread schedules x conversion faults: real malt code on real threads under a baton scheduler that decides every '
   'interleaving at line granularity; a per-thread status-stack model checks identity restoration after every call (return or raise), the documented '
   'status inside do_not_convert / user-requested regions, and cross-thread isolation. Sampling, not proof; right level because the property quantifies '
   'over histories and schedules that no enumeration can finish.',
   'Trusts: CPython threading.local and the GIL-atomicity of C/stdlib calls; pre-emption only at source lines (bytecodes in a swarm fraction) of the traced '
   'malt files; the status model is hand-written from the statement and the wrappers\' docstrings.',
   'deterministic simulation: seeded baton-passing thread scheduler (random/PCT/hot-site), stage-fault injection, status-stack reference model, minimised replay files',
   'DESIGN.md section 5'),
 'C10': chk('C10', 'exploration',
   'Seeded search over request histories x thread schedules x GC/drop events x conversion faults against the real cache, with a stateless convert-fresh '
   'reference per (function object, options), an at-most-once transformation counter and deadlock detection on the simulated locks.',
   'Trusts: the convert-fresh reference (same malt pipeline with pristine caches), GIL-atomicity of C/stdlib calls, line-granular pre-emption in traced files, gc only at simulator events.',
   'deterministic simulation: seeded baton-passing thread scheduler with simulated locks and GC/drop events, convert-fresh reference model, fault injection, minimised replay files',
   'DESIGN.md section 3'),
 'C13': chk('C13', 'fault_enumeration',
   'Histories of converted_call operations over a pool of callable kinds with a failure injected at every discovered stage of the conversion pipeline '
   '(entry/exit x exception classes, plus real file-system faults), checked against direct calls (transparency), a decision-table model of the documented policy, '
   'and fallback/remembering/strict-mode rules. Quick enumerates every discovered stage once; thorough samples occurrences, exception types and multi-fault histories.',
   'Trusts: stage discovery by profiling a dry-run conversion (points move with the code), the policy table written from functions.md/docstrings, fake full-disk file object.',
   'deterministic simulation: seeded operation/fault histories with stage-level fault injection, direct-call and decision-table reference models, minimised replay files',
   'DESIGN.md section 4'),
}

def main(claimed):
  base_cmd = BASE.get('cmd', 'cd /repo && /venv/bin/python -m pytest -ra -q -p no:cacheprovider --timeout=900 --continue-on-collection-errors')
  base_cmd = base_cmd.replace(' --junitxml=<file>', '')
  na = dict(NA)
  for pid in CHECKS:
    if pid not in claimed:
      na[pid] = 'check under construction in this commit (see DESIGN.md); not yet claimed'
  m = {
    'version': 1,
    'setup_cmd': '/venv/bin/python tools/doctor.py',
    'hooks': {
      'guard': 'MALT_VERIF_SIM',
      'enable': 'no source hooks: every seam is a module attribute or the threading.Lock/RLock/Event factories patched by the harness before malt is imported; MALT_VERIF_SIM=1 is set by the harness for its own lanes only and no file in /repo reads it',
      'baseline_off_cmd': base_cmd,
      'source_commits': [],
      'add_only': True,
    },
    'engines': [{'name': 'dsim', 'path': 'dsim/', 'serves_properties': sorted(claimed),
                 'kind_free_text': 'deterministic simulator: baton-passing scheduler over real threads (sys.monitoring line events), simulated locks, GC/drop events, stage-fault injector, fork-per-run lanes, minimiser and replay'}],
    'checks': [CHECKS[p] for p in sorted(claimed)],
    'not_applicable': [{'property_id': k, 'reason': v} for k, v in sorted(na.items())],
    'notes': 'Checks read /repo (override: --repo or VERIF_REPO) and import malt from that working tree in fresh interpreters; nothing is built or cached. Exit 2 = harness error (never a VIOLATION).',
  }
  json.dump(m, open(os.path.join(V, 'MANIFEST.json'), 'w'), indent=1)

if __name__ == '__main__':
  import sys
  main(set(sys.argv[1:]) or set(CHECKS))
