"""Fault injection: failures inside the conversion pipeline.

Injection points are *discovered*, not listed: a fault-free dry run of a real
conversion is profiled and every malt function called at most MAX_DEPTH malt
frames below `transform_function` becomes a point (so a refactoring moves the
points with the code).  A point is armed by replacing the attribute through
which malt itself reaches the function (module attribute / class attribute -
malt calls everything module-qualified) with a wrapper that raises on the n-th
call, either before calling the original (`entry`) or after it returned
(`exit`).  Environment faults (source file gone, temp dir gone, disk full) use
the real file system / an in-process fake of the temp file.
"""
import errno
import os
import sys
import tempfile
import _thread

MAX_DEPTH = 4

EXC_MENU = [
    'OSError:ENOSPC', 'OSError:EIO', 'OSError:EMFILE', 'OSError:EACCES',
    'MemoryError', 'RecursionError', 'SyntaxError', 'ValueError', 'KeyError',
    'AssertionError', 'AttributeError', 'TypeError', 'NotImplementedError',
    'IndexError', 'RuntimeError', 'StopIteration', 'NameError',
    'UnsupportedLanguageElementError', 'InaccessibleSourceCodeError',
]
EXC_QUICK = ['OSError:ENOSPC', 'MemoryError', 'KeyError', 'UnsupportedLanguageElementError', 'ValueError',
             'AssertionError']


class Injected(object):
  """Marker mixin is not used (malt must see ordinary exception types); the
  injector instead tags the instance."""


def make_exc(spec):
  from malt.pyct import errors
  if spec.startswith('OSError:'):
    code = getattr(errno, spec.split(':')[1])
    e = OSError(code, os.strerror(code) + ' [injected]')
  elif spec == 'UnsupportedLanguageElementError':
    e = errors.UnsupportedLanguageElementError('injected')
  elif spec == 'InaccessibleSourceCodeError':
    e = errors.InaccessibleSourceCodeError('injected')
  elif spec == 'SyntaxError':
    e = SyntaxError('injected')
  else:
    e = getattr(__import__('builtins'), spec)('injected')
  try:
    e._dsim_injected = True
  except Exception:
    pass
  return e


def exc_type_name(spec):
  if spec.startswith('OSError:'):
    return type(make_exc(spec)).__name__     # e.g. EACCES -> PermissionError
  return spec


# ---------------------------------------------------------------------------
# discovery
# ---------------------------------------------------------------------------
def discover(thunk, repo_root):
  """Runs thunk() under a profiler; returns ordered list of point keys
  'module:qualname' for malt functions called <= MAX_DEPTH malt frames below a
  frame named transform_function of a PyToPy-like class."""
  found = []
  seen = set()
  state = {'base': None, 'stack': []}   # stack of booleans: is malt frame
  SCOPE_KEYS.clear()

  def prof(frame, event, arg):
    if event == 'call':
      code = frame.f_code
      is_malt = code.co_filename.startswith(repo_root)
      if state['base'] is None:
        if is_malt and code.co_name == 'transform_function' and 'PyToPy' in code.co_qualname:
          state['base'] = len(state['stack'])
          state['depth'] = 0
          key = '%s:%s' % (frame.f_globals.get('__name__'), code.co_qualname)
          if key not in SCOPE_KEYS:
            SCOPE_KEYS.append(key)
        state['stack'].append(is_malt)
        return
      state['stack'].append(is_malt)
      if is_malt:
        state['depth'] += 1
        if state['depth'] <= MAX_DEPTH:
          key = '%s:%s' % (frame.f_globals.get('__name__'), code.co_qualname)
          if key not in seen:
            seen.add(key)
            found.append(key)
    elif event == 'return':
      if not state['stack']:
        return
      is_malt = state['stack'].pop()
      if state['base'] is not None:
        if len(state['stack']) == state['base']:
          state['base'] = None
        elif is_malt:
          state['depth'] -= 1

  sys.setprofile(prof)
  try:
    thunk()
  finally:
    sys.setprofile(None)
  return found


# functions that delimit "inside the conversion pipeline" (found by discover)
SCOPE_KEYS = []


def resolve(key):
  """-> (holder object, attribute name, function) or None."""
  modname, qual = key.split(':', 1)
  if '<' in qual:
    return None
  mod = sys.modules.get(modname)
  if mod is None:
    return None
  parts = qual.split('.')
  holder = mod
  for p in parts[:-1]:
    holder = getattr(holder, p, None)
    if holder is None:
      return None
  name = parts[-1]
  if isinstance(holder, type):
    fn = holder.__dict__.get(name)
  else:
    fn = getattr(holder, name, None)
  if fn is None or isinstance(fn, (staticmethod, classmethod, property)):
    return None
  code = getattr(fn, '__code__', None)
  if code is None:
    return None
  if 'currentframe' in code.co_names or '_getframe' in code.co_names:
    return None           # caller-frame sensitive: a wrapper would change it
  if name.startswith('__') and name != '__init__':
    return None
  return holder, name, fn


def usable_points(keys):
  return [k for k in keys if resolve(k) is not None]


# ---------------------------------------------------------------------------
# injector
# ---------------------------------------------------------------------------
class Fault(object):
  __slots__ = ('point', 'nth', 'when', 'exc', 'ident', 'calls', 'fired', 'active', 'tag', 'conv_k',
               'conv_base')

  def __init__(self, point, nth, when, exc, ident=None, tag=None, conv_k=None):
    self.point = point
    self.nth = nth
    self.when = when
    self.exc = exc
    self.ident = ident        # thread ident the fault is aimed at (None: any)
    self.calls = 0
    self.fired = False
    self.active = True
    self.tag = tag
    # conv_k: only the k-th conversion (pipeline entry) after arming counts, e.g.
    # k=2 aims at the first callee converted from inside a converted caller
    self.conv_k = conv_k
    self.conv_base = None


def _thread_key():
  """Identity of the calling thread for fault targeting: the simulated thread
  (stable), not the OS thread identifier - the OS hands the identifier of an
  ended thread to a new one whenever it likes, which made a fault aimed at an
  ended thread fire in its successor in some executions and not in others."""
  from dsim import boot
  sim = boot.CURRENT_SIM
  if sim is not None:
    t = sim.current_thread()
    if t is not None:
      return ('sim', t.tid)
  return ('os', _thread.get_ident())


class Injector(object):

  def __init__(self, scope_keys=None):
    self.by_point = {}
    self.installed = {}
    self.fired_log = []       # (point, when, exc, tag)
    self.on_fire = None
    self.depth = {}           # thread ident -> nesting depth inside the pipeline
    self.convs = {}           # thread ident -> number of pipeline entries so far
    self.scoped = False
    self.scope_raised = []    # thread idents: one entry per pipeline call that exited by an exception
    for key in (SCOPE_KEYS if scope_keys is None else scope_keys):
      self._install_scope(key)

  def _install_scope(self, key):
    r = resolve(key)
    if r is None:
      return
    holder, name, fn = r
    depth = self.depth

    convs = self.convs
    raised = self.scope_raised

    def scope(*a, **k):
      ident = _thread.get_ident()
      depth[ident] = depth.get(ident, 0) + 1
      convs[ident] = convs.get(ident, 0) + 1
      try:
        return fn(*a, **k)
      except BaseException:
        raised.append(ident)
        raise
      finally:
        depth[ident] -= 1
    scope.__name__ = fn.__name__
    scope.__qualname__ = fn.__qualname__
    scope.__doc__ = fn.__doc__
    scope.__module__ = fn.__module__
    scope.__wrapped_stage__ = fn
    setattr(holder, name, scope)
    self.scoped = True

  def arm(self, fault):
    if fault.point not in self.installed:
      r = resolve(fault.point)
      if r is None:
        return False
      self._install(fault.point, *r)
    self.by_point.setdefault(fault.point, []).append(fault)
    return True

  def disarm_all(self):
    for fl in self.by_point.values():
      for f in fl:
        f.active = False

  def _install(self, key, holder, name, fn):
    inj = self
    faults = self.by_point.setdefault(key, [])

    def wrapper(*a, **k):
      hit = None
      ident = _thread.get_ident()
      if faults and (inj.depth.get(ident) or not inj.scoped):
        for f in faults:
          if f.active and not f.fired and (f.ident is None or f.ident == _thread_key()):
            if f.conv_k is not None:
              if f.conv_base is None:
                f.conv_base = inj.convs.get(ident, 0) - 1
              if inj.convs.get(ident, 0) - f.conv_base != f.conv_k:
                continue
            f.calls += 1
            if f.calls == f.nth and hit is None:
              hit = f
      if hit is None:
        return fn(*a, **k)
      if hit.when == 'entry':
        inj._fire(hit)
        raise make_exc(hit.exc)
      res = fn(*a, **k)
      inj._fire(hit)
      raise make_exc(hit.exc)
    wrapper.__name__ = fn.__name__
    wrapper.__qualname__ = fn.__qualname__
    wrapper.__doc__ = fn.__doc__
    wrapper.__module__ = fn.__module__
    wrapper.__wrapped_stage__ = fn
    setattr(holder, name, wrapper)
    self.installed[key] = (holder, name, fn)

  def _fire(self, f):
    f.fired = True
    self.fired_log.append((f.point, f.when, f.exc, f.tag))
    if self.on_fire is not None:
      self.on_fire(f)


# ---------------------------------------------------------------------------
# environment faults
# ---------------------------------------------------------------------------
class DiskFull(object):
  """Replaces tempfile.NamedTemporaryFile (looked up by malt's loader through
  the module attribute) by a factory whose files accept `budget` characters
  and then raise ENOSPC - an in-process fake of a full disk."""

  def __init__(self, budget, ident=None, once=True):
    self.budget = budget
    self.ident = ident
    self.once = once
    self.fired = 0
    self.real = tempfile.NamedTemporaryFile
    self.active = True

  def install(self):
    df = self

    def NamedTemporaryFile(*a, **k):
      f = df.real(*a, **k)
      if not df.active or (df.ident is not None and df.ident != _thread.get_ident()):
        return f
      if df.once and df.fired:
        return f
      return _FullFile(f, df)
    tempfile.NamedTemporaryFile = NamedTemporaryFile

  def uninstall(self):
    tempfile.NamedTemporaryFile = self.real


class _FullFile(object):

  def __init__(self, f, df):
    self._f = f
    self._df = df
    self.name = f.name

  def write(self, s):
    room = self._df.budget
    if len(s) > room:
      self._f.write(s[:room])
      self._df.fired += 1
      raise OSError(errno.ENOSPC, 'No space left on device [injected]')
    self._df.budget -= len(s)
    return self._f.write(s)

  def __enter__(self):
    self._f.__enter__()
    return self

  def __exit__(self, *a):
    return self._f.__exit__(*a)

  def __getattr__(self, n):
    return getattr(self._f, n)
