"""Bootstrap that must run BEFORE malt is imported.

Replaces the `threading.Lock` / `threading.RLock` factories so that every lock
created by a frame whose file lives under the repository root becomes a
`SimLock` proxy owned by the simulator.  Locks created anywhere else (stdlib,
harness) stay real.  Other synchronisation primitives created from repository
code are recorded in `UNSUPPORTED` - the harness refuses to guess at them.
"""
import os
import sys
import threading
import _thread

REPO_ROOT = None          # absolute path with trailing slash
SIM_LOCKS = []            # every SimLock created from repo code, in creation order
UNSUPPORTED = []          # (primitive name, file, line)

_real_Lock = threading.Lock
_real_RLock = threading.RLock

# the running simulation (dsim.sched.Sim) or None; set by Sim.run()
CURRENT_SIM = None


def _creator_frame():
  f = sys._getframe(2)
  return f.f_code.co_filename, f.f_lineno


class SimLock(object):
  """Lock proxy.  Outside a simulation it delegates to a real lock; inside a
  simulation, for simulated threads, the simulator decides who owns it."""

  def __init__(self, reentrant, site):
    self.reentrant = reentrant
    self.site = site            # (relative file, line) of creation
    self.index = len(SIM_LOCKS)
    self._real = _real_RLock() if reentrant else _real_Lock()
    # simulated state
    self.owner = None           # SimThread
    self.count = 0
    self.waiters = []
    SIM_LOCKS.append(self)

  def __repr__(self):
    return '<SimLock #%d %s %s:%s>' % (self.index, 'R' if self.reentrant else 'L',
                                       self.site[0], self.site[1])

  # -- lock protocol -------------------------------------------------------
  def acquire(self, blocking=True, timeout=-1):
    sim = CURRENT_SIM
    if sim is not None:
      me = sim.current_thread()
      if me is not None:
        return sim.lock_acquire(self, me, blocking, timeout)
    if timeout is not None and timeout >= 0 and blocking:
      return self._real.acquire(blocking, timeout)
    return self._real.acquire(blocking)

  def release(self):
    sim = CURRENT_SIM
    if sim is not None:
      me = sim.current_thread()
      if me is not None:
        return sim.lock_release(self, me)
    return self._real.release()

  def locked(self):
    sim = CURRENT_SIM
    if sim is not None and sim.current_thread() is not None:
      return self.owner is not None
    if self.reentrant:
      # RLock has no locked() before 3.14; emulate
      if self._real.acquire(False):
        self._real.release()
        return False
      return True
    return self._real.locked()

  __enter__ = acquire

  def __exit__(self, *a):
    self.release()

  def reset_sim_state(self):
    self.owner = None
    self.count = 0
    self.waiters = []


def _in_repo(filename):
  return REPO_ROOT is not None and filename.startswith(REPO_ROOT)


def _rel(filename):
  return filename[len(REPO_ROOT):] if _in_repo(filename) else filename


def _Lock():
  fn, ln = _creator_frame()
  if _in_repo(fn):
    return SimLock(False, (_rel(fn), ln))
  return _real_Lock()


def _RLock(*a, **k):
  fn, ln = _creator_frame()
  if _in_repo(fn):
    return SimLock(True, (_rel(fn), ln))
  return _real_RLock(*a, **k)


def _guard(name, real):
  def factory(*a, **k):
    fn, ln = _creator_frame()
    if _in_repo(fn):
      UNSUPPORTED.append((name, _rel(fn), ln))
    return real(*a, **k)
  factory.__name__ = name
  return factory


class _GuardedThread(threading.Thread):
  pass


def install(repo_root):
  """Install the factories.  Idempotent."""
  global REPO_ROOT
  root = os.path.realpath(repo_root)
  if not root.endswith(os.sep):
    root += os.sep
  REPO_ROOT = root
  if getattr(threading, '_dsim_installed', False):
    return
  assert 'malt' not in sys.modules, 'dsim.boot.install must run before malt is imported'
  threading.Lock = _Lock
  threading.RLock = _RLock
  for name in ('Condition', 'Semaphore', 'BoundedSemaphore', 'Barrier', 'Timer'):
    setattr(threading, name, _wrap_class(name, getattr(threading, name)))
  threading.Event = _make_sim_event(threading.Event)
  # Thread identifiers seen by repository code are simulated: the values the OS hands out (and whether a new
  # thread gets the identifier of one that ended) differ from execution to execution, and code that keys state
  # by them would make runs unrepeatable.  Everybody else (threading.py itself included) keeps the real ones.
  real_get_ident = threading.get_ident

  def get_ident():
    sim = CURRENT_SIM
    if sim is not None:
      f = sys._getframe(1)
      if _in_repo(f.f_code.co_filename):
        me = sim.current_thread()
        if me is not None:
          return sim.sim_ident(me)
    return real_get_ident()
  get_ident.__doc__ = real_get_ident.__doc__
  threading.get_ident = get_ident
  # Thread creation from repo code
  _orig_thread_init = threading.Thread.__init__

  def _thread_init(self, *a, **k):
    f = sys._getframe(1)
    if _in_repo(f.f_code.co_filename):
      UNSUPPORTED.append(('Thread', _rel(f.f_code.co_filename), f.f_lineno))
    return _orig_thread_init(self, *a, **k)
  threading.Thread.__init__ = _thread_init
  threading._dsim_installed = True


SIM_EVENTS_CREATED = [0]


def _make_sim_event(cls):
  """threading.Event whose instances created by repository code are owned by
  the simulator: a simulated thread waiting on one is *blocked* (other threads
  run), set() wakes the waiters.  The flag itself stays in the real object.
  A timed wait times out only when nothing else in the simulation can run."""
  orig_init = cls.__init__

  class Event(cls):
    _dsim = False

    def __init__(self, *a, **k):
      orig_init(self, *a, **k)
      f = sys._getframe(1)
      if _in_repo(f.f_code.co_filename):
        self._dsim = True
        self.site = (_rel(f.f_code.co_filename), f.f_lineno)
        self.owner = None          # (lets the deadlock report treat it like a lock)
        self.sim_waiters = []
        SIM_EVENTS_CREATED[0] += 1
        self.index = 'e%d' % SIM_EVENTS_CREATED[0]

    def __repr__(self):
      if self._dsim:
        return '<SimEvent %s %s:%s>' % (self.index, self.site[0], self.site[1])
      return cls.__repr__(self)

    def wait(self, timeout=None):
      sim = CURRENT_SIM
      if self._dsim and sim is not None:
        me = sim.current_thread()
        if me is not None:
          return sim.event_wait(self, me, timeout)
      return cls.wait(self, timeout)

    def set(self):
      cls.set(self)
      sim = CURRENT_SIM
      if self._dsim and sim is not None:
        sim.event_set(self, sim.current_thread())

  Event.__module__ = cls.__module__
  Event.__qualname__ = Event.__name__ = 'Event'
  return Event


def _wrap_class(name, cls):
  """Subclass whose construction from repo code is recorded as unsupported.
  (A subclass, not a function, so isinstance/subclassing in stdlib still works.)"""
  orig_init = cls.__init__

  def __init__(self, *a, **k):
    f = sys._getframe(1)
    if _in_repo(f.f_code.co_filename):
      UNSUPPORTED.append((name, _rel(f.f_code.co_filename), f.f_lineno))
    orig_init(self, *a, **k)
  return type(name, (cls,), {'__init__': __init__, '__module__': cls.__module__})
