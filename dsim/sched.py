"""Deterministic baton-passing scheduler for real CPython threads.

Exactly one simulated thread runs at any time.  A thread gives up the baton
only at *points*: `line` (optionally `opcode`) trace events in the traced
files, simulated-lock operations, op boundaries announced by the workload and
thread end.  Which thread gets the baton is decided by a strategy object that
draws from a seeded PRNG (search) or follows an explicit segment list (replay
and minimisation).  Nothing here reads a clock.
"""
import hashlib
import random
import sys
import _thread
import threading

from dsim import boot

NEW, RUNNABLE, BLOCKED, DONE = 'new', 'runnable', 'blocked', 'done'


class SimAbort(BaseException):
  """Raised inside simulated threads to unwind them (not an Exception, so
  malt's broad handlers cannot swallow it)."""


class SimThread(object):
  __slots__ = ('tid', 'name', 'target', 'gate', 'state', 'blocked_on', 'npoints', 'hot_events', 'nhot', 'after', 'ident',
               'exc', 'result', 'real', 'events', 'atomic', 'held', 'data', 'timed_wait', 'timed_out',
               'stall_at', 'stall_len', 'stalled_until')

  def __init__(self, tid, name, target):
    self.tid = tid
    self.name = name
    self.target = target
    self.gate = _thread.allocate_lock()
    self.gate.acquire()
    self.timed_wait = False
    self.timed_out = False
    self.stall_at = -1          # stall fault: at this point count of the thread ...
    self.stall_len = 0          # ... it is not scheduled for this many global steps (while others can run)
    self.stalled_until = -1
    self.state = NEW
    self.blocked_on = None
    self.npoints = 0
    self.exc = None
    self.result = None
    self.real = None
    self.events = {}      # k-th point of this thread -> [callable(sim, thread)]
    self.hot_events = {}  # k-th *hot* point of this thread -> [callable]
    self.nhot = 0
    self.ident = None     # OS thread identifier, set when the thread starts
    self.after = None     # tid that must have ended (OS thread exited) before this thread is created
    self.atomic = 0
    self.held = []        # simulated locks currently held (for probes)
    self.data = {}        # workload scratch

  def __repr__(self):
    return '<T%d %s %s>' % (self.tid, self.name, self.state)


# ---------------------------------------------------------------------------
# strategies
# ---------------------------------------------------------------------------
class Strategy(object):
  name = 'base'

  def describe(self):
    return {'name': self.name}

  def start(self, sim):
    pass

  def choose(self, sim, me, hot):
    """Called at a point of running thread `me` (which is runnable).  Returns
    the thread that runs next (may be `me`)."""
    return me

  def pick(self, sim, runnable):
    """Called when the running thread blocked or ended, and at start."""
    return runnable[0]


class SerialStrategy(Strategy):
  name = 'serial'


class RandomStrategy(Strategy):
  name = 'random'

  def __init__(self, seed, p, hot_mult=1.0):
    self.rng = random.Random(seed)
    self.p = p
    self.hot_mult = hot_mult
    self.seed = seed

  def describe(self):
    return {'name': self.name, 'p': self.p, 'hot_mult': self.hot_mult}

  def choose(self, sim, me, hot):
    others = [t for t in sim.threads if t.state is RUNNABLE and t is not me]
    if not others:
      return me
    p = self.p * (self.hot_mult if hot else 1.0)
    if self.rng.random() < p:
      return others[self.rng.randrange(len(others))]
    return me

  def pick(self, sim, runnable):
    if len(runnable) == 1:
      return runnable[0]
    return runnable[self.rng.randrange(len(runnable))]


class PCTStrategy(Strategy):
  """Probabilistic concurrency testing (Burckhardt et al.): random distinct
  priorities, d priority-change points at random global steps."""
  name = 'pct'

  def __init__(self, seed, depth, est_steps):
    self.rng = random.Random(seed)
    self.depth = depth
    self.est = max(est_steps, 10)
    self.prio = {}
    self.change = []

  def describe(self):
    return {'name': self.name, 'depth': self.depth, 'est_steps': self.est}

  def start(self, sim):
    n = len(sim.threads)
    pr = list(range(self.depth + 1, self.depth + 1 + n))
    self.rng.shuffle(pr)
    self.prio = {t.tid: pr[i] for i, t in enumerate(sim.threads)}
    self.change = sorted(self.rng.randrange(1, self.est) for _ in range(self.depth))

  def _best(self, runnable):
    return max(runnable, key=lambda t: self.prio[t.tid])

  def choose(self, sim, me, hot):
    while self.change and sim.steps >= self.change[0]:
      self.change.pop(0)
      # lower the running thread below everything assigned so far
      self.prio[me.tid] = len(self.change)
    runnable = [t for t in sim.threads if t.state is RUNNABLE]
    return self._best(runnable)

  def pick(self, sim, runnable):
    return self._best(runnable)


class ExplicitStrategy(Strategy):
  """Follows a recorded segment list [[tid, npoints, how], ...]; how = 's': the
  thread was switched out at its npoints-th point of the segment, 'b': it ran
  until it blocked or ended (npoints is informational).  Robust against edited
  lists: a segment whose thread cannot run is skipped; when the list is
  exhausted the lowest runnable thread runs to completion."""
  name = 'explicit'

  def __init__(self, segments):
    self.segs = [list(s) for s in segments]
    self.i = -1
    self.remaining = 0

  def describe(self):
    return {'name': self.name, 'segments': len(self.segs)}

  def _advance(self, sim, me_ok, me):
    """Move to the next segment naming a runnable thread."""
    while True:
      self.i += 1
      if self.i >= len(self.segs):
        self.remaining = 1 << 60
        if me_ok:
          return me
        runnable = [t for t in sim.threads if t.state is RUNNABLE]
        return runnable[0]
      seg = self.segs[self.i]
      tid, n = seg[0], seg[1]
      how = seg[2] if len(seg) > 2 else 's'
      t = sim.threads[tid] if 0 <= tid < len(sim.threads) else None
      if t is not None and t.state is RUNNABLE:
        self.remaining = n if how == 's' else (1 << 60)
        return t

  def choose(self, sim, me, hot):
    self.remaining -= 1
    if self.remaining > 0:
      return me
    return self._advance(sim, True, me)

  def pick(self, sim, runnable):
    return self._advance(sim, False, None)


# ---------------------------------------------------------------------------
# the simulator
# ---------------------------------------------------------------------------
class Sim(object):

  def __init__(self, strategy, tracer=None, max_steps=200000, keep_log=False, raw_threads=False):
    # raw_threads: start the workers with _thread.start_new_thread (as C
    # extensions and low-level code do): the threading module does not know them
    self.raw_threads = raw_threads
    self.strategy = strategy
    self.tracer = tracer
    self.max_steps = max_steps
    self.threads = []
    self.cur = None
    self.steps = 0
    self.outcome = None
    self.segments = []            # recorded schedule [[tid, npoints], ...]
    self.switches = 0
    self._by_ident = {}
    self._main_gate = _thread.allocate_lock()
    self._main_gate.acquire()
    self._hash = hashlib.sha256()
    self.keep_log = keep_log
    self.log = [] if keep_log else None
    self.in_handler = False
    self.probes = {}
    self.switch_pairs = set()     # (site_from, site_to) across a context switch
    self._last_site = {}
    self.lock_listeners = []      # callables(kind, lock, thread)

  # -- construction -------------------------------------------------------
  def add_thread(self, name, target, after=None):
    """`after`: the simulated thread is created (as a real OS thread) only once
    thread `after` has ended and its OS thread has exited - so the newcomer may
    be given the same thread identifier."""
    t = SimThread(len(self.threads), name, target)
    t.after = after
    self.threads.append(t)
    return t

  def forget_thread(self, tid):
    """Drops the simulator's reference to the (ended) thread's Thread object,
    as a program does that no longer keeps its worker objects."""
    t = self.threads[tid]
    if t.state is DONE and t.real is not None and not t.real.is_alive():
      t.real = None
      return True
    return False

  def at_point(self, tid, k, fn):
    """Schedule environment event `fn(sim, thread)` at thread tid's k-th point."""
    self.threads[tid].events.setdefault(k, []).append(fn)

  def at_hot_point(self, tid, k, fn):
    """Same, counted in hot points only (cache / context / lock sites)."""
    self.threads[tid].hot_events.setdefault(k, []).append(fn)

  def current_thread(self):
    return self._by_ident.get(_thread.get_ident())

  def sim_ident(self, t):
    """The thread identifier repository code sees for simulated thread `t`: a
    thread started after another one has ended (`after`) gets its
    predecessor's identifier - the reuse every OS practises."""
    seen = 0
    while t.after is not None and seen < 64:
      t = self.threads[t.after]
      seen += 1
    return 1000000 + t.tid

  def probe(self, name, n=1):
    self.probes[name] = self.probes.get(name, 0) + n

  # -- event log -----------------------------------------------------------
  def _ev(self, tid, kind, a=0, b=0):
    rec = '%d%s%s:%s;' % (tid, kind, a, b)
    self._hash.update(rec.encode())
    if self.keep_log:
      self.log.append(rec)

  def note(self, text):
    """Workload-level event folded into the digest (op begin/end, results)."""
    me = self.current_thread()
    self._ev(me.tid if me else -1, 'N', text, '')

  def digest(self):
    return self._hash.hexdigest()

  def switch_pair_hashes(self, cap=1500):
    """Stable 32-bit hashes of the (site switched from, site switched to) pairs
    seen in this run, for a cross-run count of distinct interleaving points."""
    import zlib
    hs = sorted(zlib.crc32(repr(p).encode()) for p in self.switch_pairs)
    return hs[:cap]

  # -- running -------------------------------------------------------------
  def run(self):
    assert boot.CURRENT_SIM is None
    for lk in boot.SIM_LOCKS:
      lk.reset_sim_state()
    boot.CURRENT_SIM = self
    try:
      for t in self.threads:
        if t.after is None or self.raw_threads:
          if not self.raw_threads:
            t.real = threading.Thread(target=self._thread_main, args=(t,),
                                      name='sim-%d' % t.tid, daemon=True)
          t.state = RUNNABLE
      for t in self.threads:
        if t.state is RUNNABLE:
          if self.raw_threads:
            _thread.start_new_thread(self._thread_main, (t,))
          else:
            t.real.start()
      # every thread is now parked on its gate (or about to be: the gate is
      # already held, so acquire() blocks whenever they get there)
      self.strategy.start(self)
      if self.tracer is not None:
        self.tracer.start()
      if self.threads:
        first = self.strategy.pick(self, [t for t in self.threads if t.state is RUNNABLE])
        self._open_segment(first)
        self.cur = first
        first.gate.release()
        self._main_gate.acquire()
        # late threads: created by the controller once their predecessor's OS thread is gone
        while self.outcome is None and self._spawn_late():
          runnable = [t for t in self.threads if t.state is RUNNABLE]
          nxt = self.strategy.pick(self, runnable)
          self._open_segment(nxt, 'b')
          self.cur = nxt
          nxt.gate.release()
          self._main_gate.acquire()
      if self.outcome is None:
        self.outcome = {'status': 'ok'}
    finally:
      if self.tracer is not None:
        self.tracer.stop()
      boot.CURRENT_SIM = None
    return self.outcome

  def _late_ready(self):
    return [t for t in self.threads if t.state is NEW and t.after is not None
            and self.threads[t.after].state is DONE]

  def _spawn_late(self):
    started = False
    for t in self._late_ready():
      pred = self.threads[t.after]
      if pred.real is not None:
        pred.real.join()          # its OS thread (and identifier) is released
      t.real = threading.Thread(target=self._thread_main, args=(t,), name='sim-%d' % t.tid, daemon=True)
      t.state = RUNNABLE
      t.real.start()
      self._ev(t.tid, 'N', 'spawned-after', t.after)
      started = True
    return started or any(t.state is RUNNABLE for t in self.threads)

  def _thread_main(self, t):
    t.ident = _thread.get_ident()
    self._by_ident[t.ident] = t
    t.gate.acquire()
    if self.outcome is not None:
      return
    self._ev(t.tid, 'S')
    tr = self.tracer
    if tr is not None:
      tr.thread_enter()
    try:
      t.result = t.target()
    except SimAbort:
      pass
    except BaseException as e:  # workload bug or escaped exception: recorded
      t.exc = e
    finally:
      if tr is not None:
        tr.thread_exit()
    t.state = DONE
    self._ev(t.tid, 'E')
    self._leave(t)

  def _leave(self, me):
    """`me` cannot continue (blocked or done): hand the baton on."""
    if me.state is DONE and self._late_ready():
      self.cur = None
      self._main_gate.release()
      return None
    runnable = [t for t in self.threads if t.state is RUNNABLE]
    if not runnable:
      # discrete-event time: with nothing runnable the clock jumps to the earliest pending timeout
      timed = [t for t in self.threads if t.state is BLOCKED and getattr(t, 'timed_wait', False)]
      if timed:
        t = timed[0]
        t.state = RUNNABLE
        t.timed_wait = False
        t.timed_out = True
        if t in t.blocked_on.sim_waiters:
          t.blocked_on.sim_waiters.remove(t)
        t.blocked_on = None
        self._ev(t.tid, 'O')
        self.probe('timed_wait_expired')
        runnable = [t]
    if not runnable:
      blocked = [t for t in self.threads if t.state is BLOCKED]
      if blocked:
        self.outcome = {
            'status': 'deadlock',
            'wait_for': [[t.tid, repr(t.blocked_on),
                          t.blocked_on.owner.tid if t.blocked_on.owner else None]
                         for t in blocked]}
      self.cur = None
      self._main_gate.release()
      return None
    awake = [t for t in runnable if t.stalled_until <= self.steps]
    nxt = self.strategy.pick(self, awake or runnable)
    self._open_segment(nxt, 'b')
    self.cur = nxt
    self.switches += 1
    nxt.gate.release()
    return nxt

  def _open_segment(self, t, how_prev='s'):
    if self.segments:
      self.segments[-1][2] = how_prev
    self.segments.append([t.tid, 0, 'b'])

  def _halt(self, me, status, **kw):
    """Stop the whole simulation from inside thread `me` (never returns)."""
    self.outcome = dict(status=status, **kw)
    self.cur = None
    self._main_gate.release()
    me.gate.acquire()     # parked for ever; the process exits soon
    raise SimAbort()

  # -- points ----------------------------------------------------------------
  def point(self, kind, a=0, b=0, hot=False):
    me = self.cur
    if me is None or me.atomic or self.in_handler:
      return
    if _thread.get_ident() != me.ident:
      return      # code running on a non-simulated thread
    self.steps += 1
    me.npoints += 1
    self._ev(me.tid, kind, a, b)
    self.segments[-1][1] += 1
    evs = me.events.get(me.npoints)
    if hot:
      me.nhot += 1
      if me.hot_events:
        hv = me.hot_events.get(me.nhot)
        if hv:
          evs = (evs or []) + hv
    if evs:
      self.in_handler = True
      try:
        for fn in evs:
          fn(self, me)
      finally:
        self.in_handler = False
    if self.steps > self.max_steps:
      self._halt(me, 'step-cap', steps=self.steps)
    if me.stall_at == me.npoints:
      me.stall_at = -1
      me.stalled_until = self.steps + me.stall_len
      self._ev(me.tid, 'Z', me.stall_len)
      self.probe('stall_fault_fired')
    nxt = self.strategy.choose(self, me, hot)
    if nxt.stalled_until > self.steps:
      # a stalled thread runs only when nobody else can
      cands = [t for t in self.threads if t.state is RUNNABLE and t.stalled_until <= self.steps]
      if cands:
        nxt = me if me in cands else self.strategy.pick(self, cands)
    if nxt is not me:
      site = (kind, a, b)
      self._last_site[me.tid] = site
      to_site = self._last_site.get(nxt.tid, ('start', 0, 0))
      if len(self.switch_pairs) < 100000:
        self.switch_pairs.add((site, to_site))
      self._open_segment(nxt, 's')
      self.cur = nxt
      self.switches += 1
      nxt.gate.release()
      me.gate.acquire()
      if self.outcome is not None:
        raise SimAbort()

  # -- simulated locks ---------------------------------------------------------
  def lock_acquire(self, lock, me, blocking=True, timeout=-1):
    if me.atomic or self.in_handler:
      # harness-atomic section (e.g. a weakref / GC callback fired by a simulated
      # drop or collection): must not block
      if lock.owner is None or (lock.owner is me and lock.reentrant):
        lock.owner = me
        lock.count += 1
        return True
      if lock.owner is me:
        # a non-reentrant lock its own thread already holds, wanted again from a
        # callback running on that very thread: a real thread blocks for ever here
        self._ev(me.tid, 'D', lock.index)
        self._halt(me, 'deadlock', wait_for=[[me.tid, repr(lock) + ' (re-entered from a callback on the owning thread)', me.tid]])
      raise RuntimeError('atomic harness section needs %r held by T%d'
                         % (lock, lock.owner.tid))
    self.point('a', lock.index, 0, hot=True)
    while True:
      if lock.owner is None:
        lock.owner = me
        lock.count = 1
        me.held.append(lock)
        self._ev(me.tid, 'A', lock.index)
        for fn in self.lock_listeners:
          fn('acquired', lock, me)
        return True
      if lock.owner is me and lock.reentrant:
        lock.count += 1
        return True
      if not blocking or (timeout is not None and timeout >= 0):
        # malt uses neither; a timed wait is modelled as an immediate failure
        # after the yield above (the owner had a chance to release)
        return False
      me.state = BLOCKED
      me.blocked_on = lock
      lock.waiters.append(me)
      self._ev(me.tid, 'B', lock.index)
      for fn in self.lock_listeners:
        fn('blocked', lock, me)
      if self._leave(me) is None:
        # deadlock: outcome set, main released; park for ever
        me.gate.acquire()
        raise SimAbort()
      me.gate.acquire()
      if self.outcome is not None:
        raise SimAbort()
      # woken by a release: state already RUNNABLE; retry

  # -- events (threading.Event objects created by repository code) -------------
  def event_wait(self, ev, me, timeout=None):
    if me.atomic or self.in_handler:
      return ev.is_set()
    self.point('w', ev.index, 0, hot=True)
    while True:
      if ev.is_set():
        return True
      me.state = BLOCKED
      me.blocked_on = ev
      me.timed_wait = timeout is not None
      me.timed_out = False
      ev.sim_waiters.append(me)
      self._ev(me.tid, 'W', ev.index)
      if self._leave(me) is None:
        me.gate.acquire()
        raise SimAbort()
      me.gate.acquire()
      if self.outcome is not None:
        raise SimAbort()
      if me.timed_out:
        # simulated time passed: nothing else could run
        me.timed_out = False
        return ev.is_set()

  def event_set(self, ev, me):
    for w in ev.sim_waiters:
      w.state = RUNNABLE
      w.blocked_on = None
      w.timed_wait = False
    ev.sim_waiters = []
    if me is not None:
      self._ev(me.tid, 'V', ev.index)
      if not (me.atomic or self.in_handler):
        self.point('v', ev.index, 0, hot=True)

  def lock_release(self, lock, me):
    if lock.owner is not me:
      raise RuntimeError('release of %r not owned by T%d' % (lock, me.tid))
    lock.count -= 1
    if lock.count > 0:
      return
    lock.owner = None
    if lock in me.held:
      me.held.remove(lock)
    for w in lock.waiters:
      w.state = RUNNABLE
      w.blocked_on = None
    lock.waiters = []
    self._ev(me.tid, 'R', lock.index)
    for fn in self.lock_listeners:
      fn('released', lock, me)
    if not (me.atomic or self.in_handler):
      self.point('r', lock.index, 0, hot=True)


class atomic(object):
  """`with atomic(sim):` - no pre-emption (harness bookkeeping that happens to
  run traced code)."""

  def __init__(self, sim):
    self.sim = sim
    self.t = None

  def __enter__(self):
    self.t = self.sim.current_thread() if self.sim is not None else None
    if self.t is not None:
      self.t.atomic += 1

  def __exit__(self, *a):
    if self.t is not None:
      self.t.atomic -= 1


# ---------------------------------------------------------------------------
# tracer
# ---------------------------------------------------------------------------
import types as _types

_MON = getattr(sys, 'monitoring', None)
_TOOL = 4
_ACTIVE = [None]          # the running Sim's Tracer (one per process at a time)
_FLAGS = {}               # code object -> (class, site label)
_SCANNED = set()          # module names already scanned


def _mon_line(code, line):
  tr = _ACTIVE[0]
  if tr is not None:
    fl = _FLAGS.get(code)
    if fl is not None:
      tr.sim.point('L', fl[1], line, fl[0] == 2)


def _mon_instr(code, offset):
  tr = _ACTIVE[0]
  if tr is not None and tr.opcodes:
    fl = _FLAGS.get(code)
    if fl is not None:
      tr.sim.point('O', fl[1], offset, True)


class Tracer(object):
  """Pre-emption points in the traced repository files.

  Preferred mechanism: sys.monitoring LINE events enabled *only* on the code
  objects of the traced files (zero cost in the AST-processing modules).
  Fallback (Python < 3.12): sys.settrace."""

  # thread-confined AST processing: line sequences there depend on hash/address
  # order; they run as one atomic step of whoever called them.
  EXCLUDE_DIRS = ('malt/converters/', 'malt/pyct/static_analysis/',
                  'malt/pyct/common_transformers/')
  EXCLUDE_FILES = frozenset(
      ['malt/pyct/%s.py' % n for n in
       ('cfg', 'anno', 'ast_util', 'qual_names', 'templates', 'transformer',
        'origin_info', 'parser', 'pretty_printer', 'naming', 'gast_util')] +
      ['malt/core/unsupported_features_checker.py'])
  # AST visitors that live in otherwise traced files
  # (+ a loop over sys.modules, whose length depends on how many generated
  # modules the process has loaded so far - not on the run)
  EXCLUDE_QUAL = {'malt/core/converter.py': ('Base.',),
                  'malt/pyct/inspect_utils.py': ('_fix_linecache_record',)}
  HOT_FILES = ('malt/pyct/cache.py', 'malt/core/ag_ctx.py',
               'malt/operators/function_wrappers.py')
  HOT_FUNCS = ('transform_function', '_cached_factory', 'instantiate',
               'is_in_allowlist_cache', 'cache_allowlisted')

  use_monitoring = _MON is not None

  def __init__(self, sim, opcodes=False):
    self.sim = sim
    self.opcodes = opcodes
    self.root = boot.REPO_ROOT
    self._flags = _FLAGS

    def ltrace(frame, event, arg, _point=sim.point, _flags=self._flags):
      if event == 'line':
        fl = _flags[frame.f_code]
        _point('L', fl[1], frame.f_lineno, fl[0] == 2)
      elif event == 'opcode':
        fl = _flags[frame.f_code]
        _point('O', fl[1], frame.f_lasti, True)
      return ltrace
    self.ltrace = ltrace

  # -- classification ---------------------------------------------------------
  @classmethod
  def classify(cls, code, root):
    fn = code.co_filename
    if not fn.startswith(root):
      return (0, '')
    rel = fn[len(root):]
    if rel in cls.EXCLUDE_FILES or rel.startswith(cls.EXCLUDE_DIRS):
      return (0, rel)
    if not rel.startswith('malt/'):
      return (0, rel)
    q = cls.EXCLUDE_QUAL.get(rel)
    if q and code.co_qualname.startswith(q):
      return (0, rel)
    hot = rel in cls.HOT_FILES or code.co_name in cls.HOT_FUNCS
    return (2 if hot else 1, rel + ':' + code.co_name)

  # -- sys.monitoring -------------------------------------------------------------
  @classmethod
  def scan(cls):
    """Enable LINE events on every code object of the traced files (idempotent;
    called in the zygote and again at the start of each run for late imports)."""
    if _MON is None:
      return 0
    root = boot.REPO_ROOT
    if _MON.get_tool(_TOOL) is None:
      _MON.use_tool_id(_TOOL, 'dsim')
      _MON.register_callback(_TOOL, _MON.events.LINE, _mon_line)
      _MON.register_callback(_TOOL, _MON.events.INSTRUCTION, _mon_instr)
    n = 0
    for name, mod in list(sys.modules.items()):
      if name in _SCANNED or not (name == 'malt' or name.startswith('malt.')):
        continue
      f = getattr(mod, '__file__', None)
      if not f or not f.startswith(root):
        continue
      _SCANNED.add(name)
      for co in _module_codes(mod, f):
        fl = cls.classify(co, root)
        if fl[0]:
          _FLAGS[co] = fl
          _MON.set_local_events(_TOOL, co, _MON.events.LINE)
          n += 1
    return n

  def start(self):
    """Called by Sim.run() before the first thread is released."""
    if self.use_monitoring:
      self.scan()
      if self.opcodes:
        for co, fl in list(_FLAGS.items()):
          if fl[0] == 2:
            _MON.set_local_events(_TOOL, co, _MON.events.LINE | _MON.events.INSTRUCTION)
      _ACTIVE[0] = self

  def stop(self):
    if self.use_monitoring:
      _ACTIVE[0] = None

  def thread_enter(self):
    if not self.use_monitoring:
      sys.settrace(self.global_trace)

  def thread_exit(self):
    if not self.use_monitoring:
      sys.settrace(None)

  # -- settrace fallback ------------------------------------------------------------
  def global_trace(self, frame, event, arg):
    code = frame.f_code
    fl = self._flags.get(code)
    if fl is None:
      fl = self._flags[code] = self.classify(code, self.root)
    if fl[0]:
      if self.opcodes and fl[0] == 2:
        frame.f_trace_opcodes = True
      return self.ltrace
    return None


def _module_codes(mod, filename):
  out = []
  seen = set()

  def rec(co):
    if id(co) in seen:
      return
    seen.add(id(co))
    out.append(co)
    for c in co.co_consts:
      if isinstance(c, _types.CodeType):
        rec(c)

  def from_obj(v, depth=0):
    f = getattr(v, '__func__', v)
    f = getattr(f, '__wrapped_stage__', f)
    f = getattr(f, '__wrapped_operator__', f)
    if isinstance(f, _types.FunctionType):
      if f.__code__.co_filename == filename:
        rec(f.__code__)
    elif isinstance(f, property):
      for g in (f.fget, f.fset, f.fdel):
        if g is not None:
          from_obj(g)
    elif isinstance(f, type) and depth < 3 and getattr(f, '__module__', None) == mod.__name__:
      for a in list(vars(f).values()):
        from_obj(a, depth + 1)
  for v in list(vars(mod).values()):
    from_obj(v)
  return out
