"""Harness pieces shared by the three workloads (runs inside lanes/children)."""
import importlib.util
import linecache
import os
import sys
import _thread
import types

_get_ident = _thread.get_ident

# ---------------------------------------------------------------------------
# ag_logging sinks (in-memory; also keeps the stdlib logging lock out of runs)
# ---------------------------------------------------------------------------
WARNINGS = []        # (thread ident, message template head)
LOGS_ENABLED = False


def _sink_warning(msg, *args, **kwargs):
  WARNINGS.append((_get_ident(), str(msg)[:60]))


def _sink_log(level, msg, *args, **kwargs):
  pass


def _sink_error(level, msg, *args, **kwargs):
  pass


def warnings_of(ident=None):
  if ident is None:
    return list(WARNINGS)
  return [w for w in WARNINGS if w[0] == ident]


# ---------------------------------------------------------------------------
# operator-trace instrumentation
# ---------------------------------------------------------------------------
OPTRACE = {}         # thread ident -> list (active sink) ; absent = not recording


class optrace(object):
  """with optrace() as tr: ...   -> tr is the list of operator names invoked
  through the generated code's ag__ namespace on this thread."""

  def __enter__(self):
    self.ident = _get_ident()
    self.prev = OPTRACE.get(self.ident)
    self.tr = []
    OPTRACE[self.ident] = self.tr
    return self.tr

  def __exit__(self, *a):
    if self.prev is None:
      OPTRACE.pop(self.ident, None)
    else:
      OPTRACE[self.ident] = self.prev


def _opts_tuple(o):
  try:
    return (bool(o.recursive), bool(o.user_requested), bool(o.internal_convert_user_code),
            tuple(sorted(f.name for f in o.optional_features)))
  except Exception:
    return ('?',)


def _wrap_operator(name, fn):
  if isinstance(fn, type):
    # FunctionScope: record the options baked into the generated code
    def wrapper(*a, **k):
      tr = OPTRACE.get(_get_ident())
      if tr is not None:
        opts = k.get('options', a[2] if len(a) > 2 else None)
        tr.append((name, _opts_tuple(opts)))
      return fn(*a, **k)
  elif name == 'with_function_scope':
    def wrapper(*a, **k):
      tr = OPTRACE.get(_get_ident())
      if tr is not None:
        opts = k.get('options', a[2] if len(a) > 2 else None)
        tr.append((name, _opts_tuple(opts)))
      return fn(*a, **k)
  elif name == 'converted_call':
    def wrapper(f, *a, **k):
      tr = OPTRACE.get(_get_ident())
      if tr is not None:
        tr.append((name, getattr(f, '__name__', type(f).__name__)))
      return fn(f, *a, **k)
  else:
    def wrapper(*a, **k):
      tr = OPTRACE.get(_get_ident())
      if tr is not None:
        tr.append(name)
      return fn(*a, **k)
  wrapper.__name__ = getattr(fn, '__name__', name)
  wrapper.__qualname__ = getattr(fn, '__qualname__', name)
  wrapper.__doc__ = getattr(fn, '__doc__', None)
  wrapper.__wrapped_operator__ = fn
  # keep what malt's own checks look at
  if hasattr(fn, 'autograph_info__'):
    wrapper.autograph_info__ = fn.autograph_info__
  wrapper.__module__ = getattr(fn, '__module__', None)
  return wrapper


# ld/ldu are called for every variable read: they would dominate the trace
# without adding information about which operators/options are in effect.
_SKIP_OPS = frozenset(['ld', 'ldu', 'Undefined', 'UndefinedReturnValue',
                       'ListPopOpts', 'ListStackOpts', 'GetItemOpts'])


def instrument_operators():
  """Wrap every operator exported by malt.operators (and converted_call) so
  that generated code, whichever ag__ namespace it was given, reports which
  operators it invokes.  Done once in the zygote, before any ag__ namespace is
  built."""
  import malt.operators as ops
  from malt.impl import api
  done = {}
  for name, val in list(vars(ops).items()):
    if name.startswith('_') or name in _SKIP_OPS:
      continue
    if isinstance(val, types.ModuleType) or not callable(val):
      continue
    mod = getattr(val, '__module__', '') or ''
    if not mod.startswith('malt.'):
      continue
    w = _wrap_operator(name, val)
    setattr(ops, name, w)
    sub = sys.modules.get(mod)
    if sub is not None and getattr(sub, name, None) is val:
      setattr(sub, name, w)
    done[name] = mod
  if hasattr(api, 'converted_call'):
    api.converted_call = _wrap_operator('converted_call', api.converted_call)
    done['converted_call'] = 'malt.impl.api'
  return done


def unwrap_operator(fn):
  return getattr(fn, '__wrapped_operator__', fn)


# ---------------------------------------------------------------------------
# zygote initialisation
# ---------------------------------------------------------------------------
INSTRUMENTED = {}


class _CaptureHandler(object):
  pass


def init_zygote(lane):
  """malt's logging functions stay real (a change inside them must be
  visible); their output is captured by a handler on the stdlib root logger.
  stdlib logging is untraced code, so a logging call is one atomic step and
  its internal locks are never held across a pre-emption point."""
  import logging as _logging

  class Capture(_logging.Handler):
    def emit(self, record):
      if record.levelno >= _logging.WARNING:
        # the template only: formatting would call repr() on user objects
        WARNINGS.append((_get_ident(), str(record.msg)[:60]))
  root = _logging.getLogger()
  for h in list(root.handlers):
    root.removeHandler(h)
  root.addHandler(Capture())
  root.setLevel(_logging.WARNING)
  _logging.raiseExceptions = False
  INSTRUMENTED.update(instrument_operators())


# ---------------------------------------------------------------------------
# fresh ("reference") world: pristine transpiler + pristine allow-list cache
# ---------------------------------------------------------------------------
def _swappable():
  """(module, attribute name, current instance) for every module-level cache
  holder: PyToPy instances in malt.impl.api, function caches in
  malt.impl.conversion.  Located by type, not by name."""
  from malt.impl import api, conversion
  from malt.pyct import transpiler, cache
  out = []
  for mod, base in ((api, transpiler.PyToPy), (conversion, cache._TransformedFnCache)):
    for k, v in list(vars(mod).items()):
      if isinstance(v, base) and not isinstance(v, type):
        out.append((mod, k, v))
  return out


class World(object):
  """A set of replacement instances for the module-level caches."""

  def __init__(self):
    from dsim import boot
    self.repl = [(mod, k, type(v)()) for mod, k, v in _swappable()]
    # module-level locks of malt (e.g. the linecache lock) get private stand-ins,
    # so that a reference conversion can run as one atomic harness step even
    # while a parked simulated thread owns the real one
    for name, mod in list(sys.modules.items()):
      if name == 'malt' or name.startswith('malt.'):
        for k, v in list(vars(mod).items()):
          if isinstance(v, boot.SimLock):
            self.repl.append((mod, k, boot._real_RLock() if v.reentrant else boot._real_Lock()))

  def __enter__(self):
    self.saved = [(mod, k, getattr(mod, k)) for mod, k, _ in self.repl]
    for mod, k, v in self.repl:
      setattr(mod, k, v)
    return self

  def __exit__(self, *a):
    for mod, k, v in self.saved:
      setattr(mod, k, v)


def real_transpilers():
  from malt.pyct import transpiler
  return [v for _, _, v in _swappable() if isinstance(v, transpiler.PyToPy)]


# ---------------------------------------------------------------------------
# user modules written as real files
# ---------------------------------------------------------------------------
def write_module(path, source):
  os.makedirs(os.path.dirname(path), exist_ok=True)
  with open(path, 'w') as f:
    f.write(source)


def load_module(name, path, register=True, inject=None):
  spec = importlib.util.spec_from_file_location(name, path)
  mod = importlib.util.module_from_spec(spec)
  if inject:
    mod.__dict__.update(inject)
  if register:
    sys.modules[name] = mod
  spec.loader.exec_module(mod)
  return mod


def outcome(fn, /, *args, **kwargs):
  """('ok', value) or ('exc', exception type name)."""
  try:
    return ('ok', fn(*args, **kwargs))
  except Exception as e:  # noqa: BLE001 - the workloads' functions raise Exceptions only
    return ('exc', type(e).__name__)


def jsonable(v):
  if isinstance(v, (list, tuple)):
    return [jsonable(x) for x in v]
  if isinstance(v, dict):
    return {str(k): jsonable(x) for k, x in v.items()}
  if isinstance(v, (int, float, str, bool)) or v is None:
    return v
  return repr(v)[:80]
