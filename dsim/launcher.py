"""Launcher: starts lanes, hands out runs, minimises and reports.

Exit codes: 0 nothing violated (KNOWN-FINDING lines allowed); 1 at least one
unlisted violation (each with a `VIOLATION property=<id> replay=<path>` line);
2 harness error (timeout, non-determinism, unsupported primitive, replay that
does not reproduce) - never a VIOLATION line.
"""
import argparse
import copy
import hashlib
import json
import os
import queue
import re
import shutil
import subprocess
import sys
import threading
import time

VERIF = os.path.dirname(os.path.dirname(os.path.abspath(__file__)))
PY = '/venv/bin/python' if os.path.exists('/venv/bin/python') else sys.executable

TIERS = {
    'C16': {
        'quick': {'subs': {'clean': 320, 'faulty': 160}, 'selftest': 24, 'timeout': 120},
        'thorough': {'subs': {'clean': 12000, 'faulty': 6000}, 'selftest': 64, 'timeout': 180},
    },
    'C10': {
        'quick': {'subs': {'clean': 320, 'faulty': 160}, 'selftest': 24, 'timeout': 120},
        'thorough': {'subs': {'clean': 10000, 'faulty': 5000}, 'selftest': 64, 'timeout': 180},
    },
    'C13': {
        'quick': {'subs': {'clean': 200, 'faulty': 400}, 'selftest': 16, 'timeout': 90},
        'thorough': {'subs': {'clean': 4000, 'faulty': 12000}, 'selftest': 64, 'timeout': 180},
    },
}
LEVEL = {'C10': 'exploration', 'C13': 'fault_enumeration', 'C16': 'exploration'}


def _setarch_prefix():
  try:
    r = subprocess.run(['setarch', '-R', 'true'], capture_output=True, timeout=20)
    if r.returncode == 0:
      return ['setarch', '-R'], 'setarch -R'
  except Exception:
    pass
  return [], 'off (setarch unavailable)'


class LaneProc(object):

  def __init__(self, pool, idx, hashseed='0'):
    self.pool = pool
    self.idx = idx
    self.hashseed = hashseed
    self.proc = None
    self.boot_info = None
    self.start()

  def start(self):
    env = dict(os.environ)
    env['PYTHONHASHSEED'] = self.hashseed
    env['PYTHONDONTWRITEBYTECODE'] = '1'
    env['MALT_VERIF_SIM'] = '1'
    env.pop('AUTOGRAPH_STRICT_CONVERSION', None)
    env.pop('AUTOGRAPH_VERBOSITY', None)
    code = ('import sys; sys.path.insert(0, %r); from dsim import lane; '
            'sys.exit(lane.main(sys.argv[1:]))' % VERIF)
    cmd = self.pool.prefix + [PY, '-B', '-c', code, self.pool.repo, self.pool.scratch,
                              str(self.idx), ','.join(self.pool.props)]
    self.log = open(os.path.join(self.pool.logdir, 'lane%02d.log' % self.idx), 'ab')
    self.proc = subprocess.Popen(cmd, stdin=subprocess.PIPE, stdout=subprocess.PIPE,
                                 stderr=self.log, env=env, cwd=self.pool.scratch)
    line = self.proc.stdout.readline()
    try:
      self.boot_info = json.loads(line.decode())
    except ValueError:
      self.boot_info = {'boot': 'error', 'detail': 'no boot line: %r' % line[:200]}

  def run(self, job, timeout):
    if self.proc is None or self.proc.poll() is not None:
      self.start()
      if self.boot_info.get('boot') != 'ok':
        return {'status': 'harness_error', 'detail': 'lane boot failed: %s' % self.boot_info.get('detail')}
    msg = json.dumps({'id': 0, 'job': job, 'timeout': timeout}) + '\n'
    try:
      self.proc.stdin.write(msg.encode())
      self.proc.stdin.flush()
      line = self.proc.stdout.readline()
      if not line:
        raise IOError('lane closed its pipe')
      return json.loads(line.decode())['result']
    except Exception as e:   # lane died
      try:
        self.proc.kill()
      except Exception:
        pass
      self.proc = None
      return {'status': 'harness_error', 'detail': 'lane failure: %r' % (e,)}

  def close(self):
    if self.proc is not None and self.proc.poll() is None:
      try:
        self.proc.stdin.write(b'{"cmd": "quit"}\n')
        self.proc.stdin.flush()
        self.proc.wait(timeout=20)
      except Exception:
        try:
          self.proc.kill()
        except Exception:
          pass
    try:
      self.log.close()
    except Exception:
      pass


class Pool(object):

  def __init__(self, repo, props, nlanes, hashseeds=None):
    self.repo = os.path.realpath(repo)
    self.props = props
    base = os.environ.get('TMPDIR') or '/tmp'
    self.scratch = os.path.join(base, 'dsim-%d-%d' % (os.getpid(), int(time.time() * 1000) % 100000))
    os.makedirs(self.scratch, exist_ok=True)
    self.logdir = os.path.join(self.scratch, 'logs')
    os.makedirs(self.logdir, exist_ok=True)
    self.prefix, self.aslr = _setarch_prefix()
    self.lanes = [None] * nlanes
    hs = hashseeds or ['0'] * nlanes
    ths = []

    def mk(i):
      self.lanes[i] = LaneProc(self, i, hs[i])
    for i in range(nlanes):
      t = threading.Thread(target=mk, args=(i,))
      t.start()
      ths.append(t)
    for t in ths:
      t.join()
    bad = [l.boot_info for l in self.lanes if l.boot_info.get('boot') != 'ok']
    if bad:
      self.close()
      raise HarnessError('lane boot failed: %s' % bad[0].get('detail'))

  def map(self, jobs, timeout, lanes=None, progress=None):
    """Runs jobs (list of dicts) and returns results in order."""
    results = [None] * len(jobs)
    q = queue.Queue()
    for i, j in enumerate(jobs):
      q.put((i, j))
    lanes = self.lanes if lanes is None else lanes

    def worker(lane):
      while True:
        try:
          i, j = q.get_nowait()
        except queue.Empty:
          return
        r = lane.run(j, timeout)
        if r.get('status') == 'harness_error' and r.get('timeout'):
          # one retry: a wall timeout may be machine load
          r2 = lane.run(j, timeout * 2)
          r2['retried_after_timeout'] = True
          r = r2
        results[i] = r
        if progress:
          progress(i, r)
    ths = [threading.Thread(target=worker, args=(l,)) for l in lanes]
    for t in ths:
      t.start()
    for t in ths:
      t.join()
    return results

  def tail_logs(self, n=40):
    out = []
    for fn in sorted(os.listdir(self.logdir)):
      p = os.path.join(self.logdir, fn)
      try:
        with open(p, 'rb') as f:
          data = f.read()[-3000:]
        if data.strip():
          out.append('--- %s ---\n%s' % (fn, data.decode(errors='replace')))
      except OSError:
        pass
    return '\n'.join(out[-n:])

  def close(self):
    for l in self.lanes:
      if l is not None:
        l.close()
    shutil.rmtree(self.scratch, ignore_errors=True)


class HarnessError(Exception):
  pass


# ---------------------------------------------------------------------------
def load_known(prop):
  p = os.path.join(VERIF, 'known_findings.json')
  if not os.path.exists(p):
    return []
  with open(p) as f:
    d = json.load(f)
  return [k for k in d.get('findings', []) if k.get('property') == prop]


def viol_key(v):
  return (v.get('rule'), v.get('sig') or v.get('msg', '')[:60])


def matches_known(v, known):
  for k in known:
    if k.get('rule') == v.get('rule') and re.search(k.get('sig', '$^'), v.get('sig') or ''):
      return k
  return None


def prop_module(prop):
  # candidate generators are pure python on plans: importable without malt
  sys.path.insert(0, VERIF) if VERIF not in sys.path else None
  import importlib
  return importlib.import_module('dsim.props.' + prop.lower())


def adjust_schedule(schedule, meta):
  if not schedule:
    return schedule
  d = meta.get('drop_tid')
  if d is None:
    return schedule
  out = []
  for seg in schedule:
    tid = seg[0]
    if tid == d:
      continue
    out.append([tid - 1 if tid > d else tid] + list(seg[1:]))
  return out


def minimise(pool, prop, res, target, timeout, budget=300, say=lambda s: None):
  """Greedy reduction of (plan, schedule) while the same (rule, sig) keeps
  failing.  Returns (plan, schedule, final result)."""
  mod = prop_module(prop)
  plan, schedule, best = res['plan'], res['schedule'], res
  used = 0

  def reproduces(r):
    return r.get('status') == 'violation' and any(viol_key(v) == target for v in r['violations'])

  # first: does the explicit schedule reproduce at all?
  r0 = pool.map([{'prop': prop, 'mode': 'explicit', 'plan': plan, 'schedule': schedule}], timeout)[0]
  used += 1
  if not reproduces(r0):
    return plan, schedule, best, {'explicit_reproduces': False, 'runs': used}
  best = r0
  progress = True
  while progress and used < budget:
    progress = False
    cands = mod.shrink_candidates(plan)
    if not cands:
      break
    # run in batches of lane count, accept the first (in order) that reproduces
    w = len(pool.lanes)
    for b in range(0, len(cands), w):
      batch = cands[b:b + w]
      jobs = [{'prop': prop, 'mode': 'explicit', 'plan': c[1],
               'schedule': adjust_schedule(schedule, c[2])} for c in batch]
      rs = pool.map(jobs, timeout)
      used += len(jobs)
      hit = None
      for c, r in zip(batch, rs):
        if reproduces(r):
          hit = (c, r)
          break
      if hit is not None:
        plan, schedule, best = hit[0][1], hit[1]['schedule'], hit[1]
        say('  shrink: %s -> steps=%s' % (hit[0][0], hit[1].get('steps')))
        progress = True
        break
      if used >= budget:
        break
  # schedule: remove context switches (ddmin over segments: big chunks first)
  def merged(segs):
    m = []
    for seg in segs:
      seg = list(seg) if len(seg) > 2 else list(seg) + ['s']
      if m and m[-1][0] == seg[0]:
        m[-1][1] += seg[1]
        m[-1][2] = seg[2]
      else:
        m.append(seg)
    return m

  w = len(pool.lanes)
  # (a) fully serial orders first: if the violation needs no interleaving at all
  nthreads = len(plan.get('threads', [])) or 1
  if nthreads > 1 and len(schedule) > nthreads and used < budget:
    orders = [list(range(nthreads)), list(range(nthreads))[::-1]]
    jobs = [{'prop': prop, 'mode': 'explicit', 'plan': plan,
             'schedule': [[t, 0, 'b'] for t in o]} for o in orders]
    rs = pool.map(jobs, timeout)
    used += len(jobs)
    for r in rs:
      if reproduces(r):
        schedule, best = r['schedule'], r
        say('  shrink: serial schedule reproduces (%d segments)' % len(schedule))
        break
  chunk = max(len(schedule) // 2, 1)
  while used < budget and len(schedule) > 1:
    n = len(schedule)
    cands = []
    for lo in range(0, n, chunk):
      s2 = merged([list(x) for x in schedule[:lo]] + [list(x) for x in schedule[lo + chunk:]])
      if s2 and len(s2) < n:
        cands.append(s2)
    cands = cands[:max(w * 3, 48)]
    hit = None
    if cands:
      rs = pool.map([{'prop': prop, 'mode': 'explicit', 'plan': plan, 'schedule': c} for c in cands], timeout)
      used += len(cands)
      for c, r in zip(cands, rs):
        if reproduces(r) and len(r['schedule']) < len(schedule):
          hit = r
          break
    if hit is not None:
      schedule, best = hit['schedule'], hit
      say('  shrink: schedule -> %d segments' % len(schedule))
      chunk = max(min(chunk, len(schedule) // 2), 1)
    elif chunk == 1:
      break
    else:
      chunk = max(chunk // 2, 1)
  return plan, schedule, best, {'explicit_reproduces': True, 'runs': used}


def write_replay(prop, plan, schedule, res, target, origin):
  d = os.path.join(VERIF, 'replays')
  os.makedirs(d, exist_ok=True)
  h = hashlib.sha256(json.dumps([plan, schedule], sort_keys=True).encode()).hexdigest()[:10]
  path = os.path.join(d, '%s-%s-%s.json' % (prop, origin.get('seed', 'x'), h))
  v = [x for x in res['violations'] if viol_key(x) == target]
  with open(path, 'w') as f:
    json.dump({'property': prop, 'plan': plan, 'schedule': schedule,
               'expect': {'rule': target[0], 'sig': target[1], 'digest': res.get('digest'),
                          'msg': v[0]['msg'] if v else None},
               'origin': origin}, f, indent=1, sort_keys=True)
  return path


# ---------------------------------------------------------------------------
def run_check(prop, tier, seed, repo, nlanes, runs_override=None, verbose=True):
  t0 = time.time()
  cfg = TIERS[prop][tier]
  subs = dict(cfg['subs'])
  if runs_override:
    tot = sum(subs.values())
    subs = {k: max(1, int(v * runs_override / tot)) for k, v in subs.items()}
  timeout = cfg['timeout']

  def say(s):
    if verbose:
      print(s, flush=True)

  say('dsim %s tier=%s VERIF_SEED=%d repo=%s lanes=%d' % (prop, tier, seed, repo, nlanes))
  pool = Pool(repo, [prop], nlanes)
  try:
    info = pool.lanes[0].boot_info
    unsupported = [u for l in pool.lanes for u in l.boot_info.get('unsupported', [])]
    if unsupported:
      say('HARNESS: unsupported synchronisation primitive created by repository code: %s' % unsupported[:3])
      return 2
    jobs = []
    for sub, n in subs.items():
      for i in range(n):
        jobs.append({'prop': prop, 'mode': 'seed', 'seed': seed, 'index': i, 'tier': tier, 'sub': sub})
    done = [0]

    def progress(i, r):
      done[0] += 1
      if verbose and done[0] % 200 == 0:
        print('  %d/%d runs' % (done[0], len(jobs)), flush=True)
    results = pool.map(jobs, timeout, progress=progress)
    t_runs = time.time() - t0

    # ---- determinism self-test -----------------------------------------------
    nst = min(cfg['selftest'], len(jobs))
    st_idx = [int(k * len(jobs) / nst) for k in range(nst)]
    st_jobs = [jobs[i] for i in st_idx]
    again = pool.map(st_jobs, timeout, lanes=pool.lanes[::-1])
    pool2 = Pool(repo, [prop], 2, hashseeds=['7', '12345'])
    try:
      other = pool2.map(st_jobs, timeout)
    finally:
      pool2.close()
    ex_jobs = [{'prop': prop, 'mode': 'explicit', 'plan': results[i]['plan'], 'schedule': results[i]['schedule']}
               if results[i].get('plan') is not None and results[i].get('schedule') is not None else jobs[i]
               for i in st_idx]
    explicit = pool.map(ex_jobs, timeout)
    mism = []
    for k, i in enumerate(st_idx):
      a, b, c, d = results[i], again[k], other[k], explicit[k]
      for name, x in (('rerun', b), ('hashseed', c), ('explicit-replay', d)):
        if (a.get('digest'), a.get('status'), a.get('steps')) != (x.get('digest'), x.get('status'), x.get('steps')):
          mism.append((i, name, a.get('digest'), x.get('digest'), a.get('status'), x.get('status')))
    selftest = {'runs_compared': nst, 'comparisons': 3 * nst, 'mismatches': len(mism),
                'modes': ['same seed again on another lane', 'fresh interpreters with PYTHONHASHSEED=7/12345',
                          'explicit replay of the recorded plan + schedule']}
    if mism:
      say('HARNESS: determinism self-test failed: %s' % (mism[:3],))
      write_evidence(prop, tier, seed, results, jobs, time.time() - t0, pool, info, selftest, [], [], note='determinism self-test failed')
      return 2

    # ---- bounded liveness (C10 "every request returns") -----------------------------------
    # a run that hit the step cap is re-run once under the serial strategy (a
    # trivially fair schedule, no faults stop flowing later than the plan says):
    # if it still does not finish, some request never returns.
    if prop == 'C10':
      capped = [i for i, r in enumerate(results)
                if r.get('status') == 'inconclusive' and (r.get('detail') or {}).get('status') == 'step-cap'][:8]
      if capped:
        sj = []
        for i in capped:
          p2 = copy.deepcopy(results[i]['plan'])
          p2['strategy'] = {'name': 'serial'}
          sj.append({'prop': prop, 'mode': 'explicit', 'plan': p2, 'schedule': None})
        for i, r2 in zip(capped, pool.map(sj, timeout)):
          if r2.get('status') == 'violation':      # the child labels a capped serial run R6/no-progress
            results[i] = r2
    # ---- classify ------------------------------------------------------------------
    herr = [(j, r) for j, r in zip(jobs, results) if r.get('status') == 'harness_error']
    known = load_known(prop)
    groups = {}
    known_hits = {}
    for j, r in zip(jobs, results):
      if r.get('status') != 'violation':
        continue
      for v in r['violations']:
        k = matches_known(v, known)
        if k is not None:
          known_hits.setdefault(k['what'], [0, k])[0] += 1
          continue
        groups.setdefault(viol_key(v), []).append((j, r))
    for what, (n, k) in sorted(known_hits.items()):
      print('KNOWN-FINDING: property=%s %s (%d runs)' % (prop, what, n), flush=True)

    reported = []
    for target, items in sorted(groups.items(), key=lambda kv: str(kv[0]))[:3]:
      items.sort(key=lambda jr: (jr[1].get('steps', 0), len(json.dumps(jr[1]['plan']))))
      j, r = items[0]
      say('violation %s in run %s (%d runs show it); minimising...' % (target, (j['sub'], j['index']), len(items)))
      plan, schedule, best, mstats = minimise(pool, prop, r, target, timeout, say=say)
      # final confirmation from a fresh lane pool
      pool3 = Pool(repo, [prop], 1)
      try:
        fin = pool3.map([{'prop': prop, 'mode': 'explicit', 'plan': plan, 'schedule': schedule}], timeout)[0]
      finally:
        pool3.close()
      ok = fin.get('status') == 'violation' and any(viol_key(v) == target for v in fin['violations'])
      if not ok:
        # fall back to the unminimised run re-executed by seed (always reproducible by construction)
        say('  minimised form did not reproduce from a fresh lane; keeping the original run')
        plan, schedule, fin = r['plan'], r['schedule'], r
      path = write_replay(prop, plan, fin.get('schedule', schedule), fin, target,
                          {'seed': seed, 'index': j['index'], 'sub': j['sub'], 'tier': tier,
                           'minimise': mstats})
      v = [x for x in fin['violations'] if viol_key(x) == target]
      say('  %s: %s' % (target[0], v[0]['msg'] if v else ''))
      print('VIOLATION property=%s replay=%s' % (prop, path), flush=True)
      reported.append({'rule': target[0], 'sig': target[1], 'replay': path, 'runs': len(items),
                       'msg': v[0]['msg'] if v else None})

    wall = time.time() - t0
    write_evidence(prop, tier, seed, results, jobs, wall, pool, info, selftest, reported,
                   sorted(known_hits), t_runs=t_runs)
    if herr and not reported:
      say('HARNESS: %d runs ended in a harness error, e.g.: %s' % (len(herr), herr[0][1].get('detail', '')[-1500:]))
      say(pool.tail_logs())
      return 2
    n_inc = sum(1 for r in results if r.get('status') == 'inconclusive')
    say('%s: %d runs, %d violations groups, %d inconclusive, %d harness errors, %.1fs'
        % (prop, len(results), len(reported), n_inc, len(herr), wall))
    return 1 if reported else 0
  finally:
    pool.close()


def write_evidence(prop, tier, seed, results, jobs, wall, pool, info, selftest, reported,
                   known_hits, t_runs=None, note=None):
  ok = [r for r in results if r and r.get('status') in ('ok', 'violation', 'inconclusive')]
  nt = set(r.get('nontrivial') for r in ok if r.get('nontrivial'))
  for r in ok:
    nt.update(r.get('nontrivial_set') or [])
  fk = {}
  probes = {}
  stats = {}
  steps = 0
  digests = set()
  switch_pairs = 0
  abstract = set()
  pair_union = set()
  for r in ok:
    for f in r.get('faults_fired', []):
      k = f[3] if len(f) > 3 else 'stage-exc'
      fk[k] = fk.get(k, 0) + 1
    for k, v in (r.get('probes') or {}).items():
      probes[k] = probes.get(k, 0) + v
    for k, v in (r.get('stats') or {}).items():
      if isinstance(v, (int, float)):
        if k.startswith('max_'):
          stats[k] = max(stats.get(k, 0), v)
        else:
          stats[k] = stats.get(k, 0) + v
    steps += r.get('steps', 0)
    digests.add(r.get('digest'))
    switch_pairs = max(switch_pairs, r.get('switch_pairs', 0))
    pair_union.update(r.get('switch_pair_hashes') or [])
    for a in r.get('abstract', []) or []:
      abstract.add(a)
  # faults that are not exceptions: counted from the probes the engine/workloads set when they actually fired
  for probe, kind in (('stall_fault_fired', 'stall'), ('event_drop', 'drop-event'), ('event_gc', 'gc-event'),
                      ('event_touch', 'mtime-touch'), ('drop_as_thread_step', 'drop-step'),
                      ('timed_wait_expired', 'timeout-expiry')):
    if probes.get(probe):
      fk[kind] = fk.get(kind, 0) + probes[probe]
  points_fired = set()
  for r in ok:
    for f in r.get('faults_fired', []):
      points_fired.add((f[0], f[1], f[2].split(':')[0]))
  samples = []
  for j, r in list(zip(jobs, results)):
    if r and (r.get('nontrivial') or r.get('nontrivial_set')) and len(samples) < 3:
      samples.append({'run': [j['sub'], j['index']], 'threads': r.get('threads'),
                      'steps': r.get('steps'), 'switches': r.get('switches'),
                      'faults_fired': r.get('faults_fired'),
                      'schedule_prefix': r.get('schedule', [])[:12],
                      'history': r.get('trace'), 'digest': r.get('digest'),
                      'plan_excerpt': (r['plan']['threads'][:1] if 'threads' in r['plan'] else r['plan'].get('ops', [])[:6])
                      if isinstance(r.get('plan'), dict) else None})
  if not samples and ok:
    r = ok[0]
    samples.append({'steps': r.get('steps'), 'history': r.get('trace'), 'digest': r.get('digest')})
  by_status = {}
  for r in results:
    s = (r or {}).get('status', 'missing')
    by_status[s] = by_status.get(s, 0) + 1
  cov = {
      'evaluations': len(results),
      'distinct_nontrivial': len(nt),
      'rule': RULE_TEXT.get(prop, ''),
      'samples': samples,
      'runs_by_status': by_status,
      'runs_by_subbatch': {s: sum(1 for j in jobs if j['sub'] == s) for s in set(j['sub'] for j in jobs)},
      'runs_per_hour': int(len(results) / max(t_runs or wall, 1e-6) * 3600),
      'seed_range': {'VERIF_SEED': seed, 'run_index': [0, max(j['index'] for j in jobs)] if jobs else None},
      'sim_steps_total': steps,
      'simulated_time_note': 'logical pre-emption points; malt has no clocks or timers',
      'fault_kinds_fired': fk,
      'distinct_fault_cases_fired': len(points_fired),
      'probes': probes,
      'workload_stats': stats,
      'distinct_schedule_digests': len(digests),
      'max_distinct_switch_pairs_in_one_run': switch_pairs,
      'distinct_switch_pairs_all_runs': len(pair_union),
      'distinct_abstract_states': len(abstract),
      'abstract_state_measure': ABSTRACT_TEXT.get(prop, ''),
      'components_real': ['every module of malt/ from the working tree', 'CPython threading.local, weakref, inspect/linecache, importlib',
                          'file system holding user sources and generated modules'],
      'components_stubbed': ['thread scheduling (baton scheduler)', 'the locks malt creates (SimLock): %s' % info.get('sim_locks'),
                             'GC timing (gc disabled; collections are simulator events)', 'temp-file names', 'capture handler on the stdlib root logger (malt ag_logging itself is real)',
                             'full-disk temp file (when that fault is chosen)'],
      'determinism_selftest': selftest,
      'aslr': pool.aslr,
      'violations_reported': reported,
      'known_findings_hit': known_hits,
  }
  if note:
    cov['note'] = note
  ev = {
      'property_id': prop, 'tier': tier, 'seed': seed, 'level': LEVEL[prop],
      'coverage': cov,
      'assumptions': [
          'pre-emption granularity: source line (bytecode in a swarm fraction) in the traced malt files; C code and stdlib Python are atomic steps',
          'AST-processing modules (converters, static analyses, cfg...) run as one atomic step of the thread holding the cache lock',
          'exploration samples schedules and fault sequences; a clean batch is evidence, not proof',
      ],
      'wall_s': round(wall, 2),
      'violations': len(reported),
  }
  d = os.path.join(VERIF, 'evidence')
  os.makedirs(d, exist_ok=True)
  with open(os.path.join(d, '%s.json' % prop), 'w') as f:
    json.dump(ev, f, indent=1, sort_keys=True)


ABSTRACT_TEXT = {
    'C10': 'at every request end: (set of (code object, options) pairs transformed so far, threads with a request in flight, cache-lock owner)',
    'C16': 'at every node entry: the modelled status stacks of all threads',
    'C13': 'decision-table cells exercised + (label, options, status, stage, edge, exception) fault cases fired',
}

RULE_TEXT = {
    'C16': ('each evaluation is one simulated run: 1..N threads each walking a seeded call tree (wrappers convert/do_not_convert/'
            'internal convert/to_graph/context block/plain calls, exceptions raised and caught at seeded nodes) under a seeded schedule; '
            'non-trivial = (>=2 threads with context switches beyond thread starts while some thread is inside a pushed region) or '
            '(single thread with an exception crossing >=2 region boundaries or caught below depth 2); distinct = distinct event-log digest '
            '(thread, file:line at every pre-emption point, lock events)'),
    'C10': ('each evaluation is one simulated run: 1..N threads issuing to_graph/convert/converted_call requests over a pool with shared '
            'code objects, twins, redefinitions, with drop/gc events at seeded pre-emption points; non-trivial = >=2 threads and >=1 context '
            'switch or environment event inside a cache operation; distinct = distinct event-log digest'),
    'C13': ('each evaluation is one history of converted_call operations over the callable-kind pool with at most one injected fault per op; '
            'non-trivial+distinct = distinct (kind label, options class, status, stage point, entry/exit, exception class) cases whose fault '
            'actually fired, plus distinct fault-free decision-table cells exercised'),
}


def run_replay(path, repo):
  with open(path) as f:
    rp = json.load(f)
  prop = rp['property']
  pool = Pool(repo, [prop], 1)
  try:
    r = pool.map([{'prop': prop, 'mode': 'explicit', 'plan': rp['plan'], 'schedule': rp['schedule'],
                   'keep_log': False}], 180)[0]
  finally:
    pool.close()
  exp = rp['expect']
  target = (exp['rule'], exp['sig'])
  hit = r.get('status') == 'violation' and any(viol_key(v) == target for v in r['violations'])
  if hit:
    v = [x for x in r['violations'] if viol_key(x) == target][0]
    print('replayed: %s: %s' % (v['rule'], v['msg']))
    if exp.get('digest') and r.get('digest') != exp['digest']:
      print('note: event-log digest differs from the recorded one (code under test changed?)')
    print('VIOLATION property=%s replay=%s' % (prop, path))
    return 1
  print('replay did not reproduce (%s): status=%s violations=%s detail=%s'
        % (target, r.get('status'), [viol_key(v) for v in r.get('violations', [])], str(r.get('detail'))[-800:]))
  return 2


def main(argv=None):
  ap = argparse.ArgumentParser()
  ap.add_argument('prop', nargs='?')
  ap.add_argument('--tier', default=os.environ.get('VERIF_TIER', 'quick'))
  ap.add_argument('--seed', type=int, default=None)
  ap.add_argument('--repo', default=os.environ.get('VERIF_REPO', '/repo'))
  ap.add_argument('--lanes', type=int, default=int(os.environ.get('VERIF_LANES', '0')) or min(16, os.cpu_count() or 4))
  ap.add_argument('--runs', type=int, default=None)
  ap.add_argument('--replay')
  ap.add_argument('--quiet', action='store_true')
  a = ap.parse_args(argv)
  if a.replay:
    return run_replay(a.replay, a.repo)
  if a.tier not in ('quick', 'thorough'):
    a.tier = 'quick'
  seed = a.seed if a.seed is not None else int(os.environ.get('VERIF_SEED', '0') or 0)
  try:
    return run_check(a.prop, a.tier, seed, a.repo, a.lanes, a.runs, not a.quiet)
  except HarnessError as e:
    print('HARNESS: %s' % e)
    return 2
