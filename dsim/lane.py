"""Lane = one fresh interpreter ("zygote") that imports malt from the working
tree once and then forks one child per simulated run.

Protocol (launcher <-> lane): JSON lines on stdin/stdout.
  -> {"id": n, "job": {...}}        <- {"id": n, "result": {...}}
  -> {"cmd": "quit"}
Everything the lane prints besides results goes to stderr.
"""
import faulthandler
import gc
import importlib
import json
import os
import select
import shutil
import signal
import sys
import tempfile
import time
import traceback

from dsim import boot


class SeqNames(object):
  """Deterministic replacement for tempfile._RandomNameSequence."""

  def __init__(self, tag):
    self.tag = tag
    self.n = 0

  def __iter__(self):
    return self

  def __next__(self):
    self.n += 1
    return '%s%06d' % (self.tag, self.n)


class Lane(object):

  def __init__(self, repo, scratch_root, lane_id, props):
    self.repo = os.path.realpath(repo)
    self.lane_id = lane_id
    self.scratch = os.path.join(scratch_root, 'lane%02d' % lane_id)
    shutil.rmtree(self.scratch, ignore_errors=True)
    os.makedirs(self.scratch)
    self.props = {}
    self.prop_names = props

  def boot(self):
    boot.install(self.repo)
    sys.path.insert(0, self.repo)
    sys.dont_write_bytecode = True
    os.environ.pop('AUTOGRAPH_STRICT_CONVERSION', None)
    os.environ.pop('AUTOGRAPH_VERBOSITY', None)
    zdir = os.path.join(self.scratch, 'zygote')
    os.makedirs(zdir)
    tempfile.tempdir = zdir
    tempfile._name_sequence = SeqNames('z')
    import malt  # noqa: F401  (the system under test, from the working tree)
    mf = os.path.realpath(malt.__file__)
    if not mf.startswith(self.repo + os.sep):
      raise RuntimeError('malt imported from %s, not from %s' % (mf, self.repo))
    from dsim import common
    common.init_zygote(self)
    for p in self.prop_names:
      mod = importlib.import_module('dsim.props.' + p.lower())
      mod.init_zygote(self)
      self.props[p] = mod
    from dsim import sched
    self.traced_code_objects = sched.Tracer.scan()
    gc.collect()
    gc.disable()

  # -- one job ---------------------------------------------------------------
  def run_job(self, job, timeout):
    rdir = os.path.join(self.scratch, 'run')
    shutil.rmtree(rdir, ignore_errors=True)
    os.makedirs(rdir)
    prep = getattr(self.props[job['prop']], 'prepare_job', None)
    if prep is not None:
      try:
        prep(self, job)     # zygote-side (e.g. reference conversions the child inherits)
      except BaseException:
        return {'status': 'harness_error', 'detail': 'prepare_job: ' + traceback.format_exc()[-3000:]}
    r, w = os.pipe()
    sys.stdout.flush()
    sys.stderr.flush()
    pid = os.fork()
    if pid == 0:
      code = 0
      try:
        os.close(r)
        faulthandler.dump_traceback_later(max(timeout - 3, 1), exit=False, file=sys.stderr)
        tempfile.tempdir = rdir
        tempfile._name_sequence = SeqNames('r')
        try:
          res = self.props[job['prop']].run_job(self, job, rdir)
        except BaseException:
          res = {'status': 'harness_error', 'detail': traceback.format_exc()[-4000:]}
        data = json.dumps(res).encode()
        with os.fdopen(w, 'wb') as f:
          f.write(data)
      except BaseException:
        traceback.print_exc()
        code = 3
      finally:
        sys.stderr.flush()
        os._exit(code)
    os.close(w)
    chunks = []
    deadline = time.monotonic() + timeout
    timed_out = False
    while True:
      left = deadline - time.monotonic()
      if left <= 0:
        timed_out = True
        break
      rl, _, _ = select.select([r], [], [], min(left, 5.0))
      if rl:
        b = os.read(r, 1 << 16)
        if not b:
          break
        chunks.append(b)
    os.close(r)
    if timed_out:
      try:
        os.kill(pid, signal.SIGKILL)
      except OSError:
        pass
    _, st = os.waitpid(pid, 0)
    shutil.rmtree(rdir, ignore_errors=True)
    aft = getattr(self.props[job['prop']], 'after_job', None)
    if aft is not None:
      aft(self)
    if timed_out:
      return {'status': 'harness_error', 'detail': 'wall timeout %ss' % timeout, 'timeout': True}
    try:
      return json.loads(b''.join(chunks).decode())
    except ValueError:
      return {'status': 'harness_error',
              'detail': 'child died without a result (wait status %d)' % st}

  def serve(self):
    out = self.proto
    for line in sys.stdin:
      line = line.strip()
      if not line:
        continue
      msg = json.loads(line)
      if msg.get('cmd') == 'quit':
        break
      res = self.run_job(msg['job'], msg.get('timeout', 60))
      out.write(json.dumps({'id': msg['id'], 'result': res}) + '\n')
      out.flush()
    shutil.rmtree(self.scratch, ignore_errors=True)


def main(argv):
  repo, scratch_root, lane_id = argv[0], argv[1], int(argv[2])
  props = argv[3].split(',')
  lane = Lane(repo, scratch_root, lane_id, props)
  # protocol channel = the original stdout; anything malt or user code prints
  # goes to stderr (the lane log) and cannot corrupt the protocol
  proto = os.fdopen(os.dup(1), 'w')
  os.dup2(2, 1)
  sys.stdout = sys.stderr
  lane.proto = proto
  try:
    lane.boot()
  except BaseException:
    proto.write(json.dumps({'boot': 'error', 'detail': traceback.format_exc()[-4000:]}) + '\n')
    proto.flush()
    shutil.rmtree(lane.scratch, ignore_errors=True)
    return 2
  proto.write(json.dumps({'boot': 'ok', 'unsupported': boot.UNSUPPORTED,
                          'sim_locks': [repr(l) for l in boot.SIM_LOCKS]}) + '\n')
  proto.flush()
  lane.serve()
  return 0
