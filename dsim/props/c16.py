"""C16 - conversion-status context is restored on every exit and isolated per
thread.

Workload: every simulated thread walks its own generated call tree.  A tree
node is one execution of a convertible user function `node_x(spec)` (a real
module file) which probes the context, calls its children through wrappers
chosen per child (convert / do_not_convert / internal convert / to_graph /
explicit context block / plain call from converted code ...), optionally
raises `Boom`, optionally catches a child's `Boom`.

Oracle: a per-thread status-stack model (rules S1..S5, see DESIGN.md section 5).
"""
import os
import random
import sys
import _thread

from dsim import common, faults, sched, boot

USER_SRC = '''\
class Boom(Exception):
  pass


class Abort(BaseException):
  """Not an Exception: like KeyboardInterrupt, GeneratorExit, CancelledError."""


class Check(AssertionError):
  """What a failing user-level `assert` raises."""


class Frozen(Exception):
  """Rejects attribute assignment (like a frozen dataclass exception)."""

  def __setattr__(self, name, value):
    raise AttributeError('cannot assign to field ' + repr(name))


def blockfn(spec):
  # a user context block written in converted code, ending in a one-branch return
  with BLOCKS[spec['blk']]:
    H.blk_probe(spec, 'in')
    if spec['early']:
      return 1
  H.blk_probe(spec, 'after')      # after the block: the function's own status again
  return 2


def callfree(spec):
  # no call, no nested function, no block: the only user code it reaches is a property getter
  v = P.now
  return v


def deep_fn(cb, k):
  return cb(k)


def gen_node(spec):
  H.gen_step(spec, 0)
  yield 1
  H.gen_step(spec, 1)
  yield 2
  H.gen_step(spec, 2)


H = None
P = None          # object with a property `now` (set by the harness)
BLOCKS = None     # name -> ControlStatusCtx objects owned by the harness (per thread lookups happen inside)

%s
node_l = lambda spec: H.lam_body(spec)


import malt as _malt


class Holder(object):
  """do_not_convert used as a decorator in a class body; the methods are called as obj.method(...)."""

  @_malt.experimental.do_not_convert
  def m_a(self, spec):
    return node_a(spec)

  @_malt.experimental.do_not_convert
  def m_b(self, spec):
    return node_b(spec)

  @_malt.experimental.do_not_convert
  def m_c(self, spec):
    return node_c(spec)
'''

NODE_SRC = '''\
def node_%(n)s(spec):
  def local(tag):
    # a local function: converted together with its parent, not user requested by itself
    H.local_probe(spec, tag)
    return tag

  nc = P.now                   # attribute access (a property getter): observes the status without any call
  if spec['first_in_block']:
    with BLOCKS[spec['first_in_block']]:     # a user's own context block written in converted code,
      H.enter(spec)                          # holding the function's first call
  else:
    H.enter(spec)
  if spec['local'] == 'direct':
    local('direct')
  elif spec['local'] == 'dnc':
    H.hof_disabled(local, spec)
  elif spec['local'] == 'escape':
    H.keep_local(local, spec)
  i = 0
  for link in spec['children']:
    if spec['raise_at'] == i:
      if spec['raise_kind'] == 1:
        raise Abort(spec['id'])
      if spec['raise_kind'] == 2:
        raise Frozen(spec['id'])
      if spec['raise_kind'] == 3:
        raise Check(spec['id'])
      raise Boom(spec['id'])
    kind = link['kind']
    if kind == 'plain':
      fn = H.pick(link)
      H.pre(spec, link)
      fn(link['spec'])
      H.post(spec, link)
    elif kind == 'plain_try':
      fn = H.pick(link)
      H.pre(spec, link)
      try:
        fn(link['spec'])
        H.post(spec, link)
      except BaseException:
        if not H.ours_now():
          raise
        H.caught(spec, link)
    else:
      H.call_child(spec, link)
    H.mid(spec)
    i += 1
  if spec['raise_at'] == i:
    if spec['raise_kind'] == 1:
      raise Abort(spec['id'])
    if spec['raise_kind'] == 2:
      raise Frozen(spec['id'])
    if spec['raise_kind'] == 3:
      raise Check(spec['id'])
    raise Boom(spec['id'])
  H.leave(spec)
  return spec['id']

'''

NODE_NAMES = ('a', 'b', 'c')      # def nodes (source generated per name)
ALL_NODES = NODE_NAMES + ('l',)     # + a lambda node (converted through with_function_scope)
FEATSETS = [(), ('EQUALITY_OPERATORS',), ('BUILTIN_FUNCTIONS', 'LISTS'),
            ('ASSERT_STATEMENTS', 'EQUALITY_OPERATORS', 'BUILTIN_FUNCTIONS', 'LISTS')]
# feature sets this fork rejects when the converted function is entered
# ("name scopes are not supported"): the call fails, the status must survive
REJECTED_FEATSETS = [('NAME_SCOPES',), ('AUTO_CONTROL_DEPS', 'EQUALITY_OPERATORS')]
STATUSES = ('UNSPECIFIED', 'ENABLED', 'DISABLED')

Z = {}      # zygote state


def init_zygote(lane):
  import malt
  from malt.impl import api
  src = USER_SRC % ''.join(NODE_SRC % {'n': n} for n in NODE_NAMES)
  path = os.path.join(lane.scratch, 'zygote', 'user', 'simuser_c16.py')
  common.write_module(path, src)
  mod = common.load_module('simuser_c16', path)
  Z['mod'] = mod
  Z['path'] = path
  for name in ('enter', 'mid', 'leave', 'pre', 'post', 'caught', 'pick', 'call_child', 'lam_body', 'ours_now', 'gen_step', 'local_probe', 'hof_disabled', 'keep_local', 'blk_probe'):
    setattr(getattr(Harness, name), 'autograph_info__', None)
  # discover injection points with a throw-away conversion in a pristine world
  feats = tuple(getattr(malt.experimental.Feature, f) for f in FEATSETS[-1])
  with common.World():
    pts = faults.discover(
        lambda: malt.to_graph(mod.node_a, recursive=True, experimental_optional_features=feats),
        boot.REPO_ROOT)
  Z['points'] = faults.usable_points(pts)


# ---------------------------------------------------------------------------
# plan generation (pure function of the seed)
# ---------------------------------------------------------------------------
LINK_KINDS_CHILD = ['plain', 'plain_try', 'convert', 'convert', 'dnc', 'dnc_gen', 'unspec', 'with',
                    'internal', 'internal', 'to_graph']
LINK_KINDS_ROOT = ['convert', 'convert', 'dnc', 'dnc_gen', 'unspec', 'with', 'internal', 'internal',
                   'to_graph', 'native']


def _gen_link(rng, prefix, budget, depth, max_depth, root, n_shared):
  kind = rng.choice(LINK_KINDS_ROOT if root else LINK_KINDS_CHILD)
  link = {'kind': kind, 'catch': root or rng.random() < 0.4, 'fn': rng.choice(ALL_NODES + NODE_NAMES)}
  if kind in ('convert', 'to_graph'):
    link['rec'] = rng.random() < 0.7
    link['feats'] = rng.randrange(len(FEATSETS))
    if rng.random() < 0.08:
      link['feats'] = 100 + rng.randrange(len(REJECTED_FEATSETS))
  if kind == 'convert' and rng.random() < 0.25:
    # convert() called directly with a conversion context object of some status
    link['cctx'] = rng.choice(STATUSES)
  if kind == 'convert' and not link.get('cctx') and rng.random() < 0.12:
    # a leaf: a converted function that holds a user block ending in a one-branch return
    link['blockfn'] = {'blk': rng.choice(STATUSES), 'early': rng.random() < 0.4}
  if kind == 'convert' and not link.get('cctx') and not link.get('blockfn') and rng.random() < 0.1:
    link['callfree'] = True      # a leaf: a converted function without a single call in its body
  if kind == 'convert' and not link.get('cctx') and not link.get('blockfn') and not link.get('callfree') and rng.random() < 0.2:
    # the wrapper object was created earlier, elsewhere (by the main thread,
    # inside a do_not_convert-like region), and is only *called* here
    link['premade'] = True
  if kind in ('convert', 'internal', 'dnc', 'unspec') and rng.random() < 0.15:
    link['as_partial'] = True      # the wrapped callable is a functools.partial of the node function
  if kind == 'convert':
    link['ur'] = rng.random() < 0.65
  if kind in ('plain', 'plain_try') and rng.random() < 0.3:
    link['wrap'] = 'dnc'           # the callee the (possibly converted) parent calls is a do_not_convert wrapper
  if kind == 'with':
    link['status'] = rng.choice(STATUSES)
    if rng.random() < 0.2:
      link['ctxref'] = rng.choice([2, 3])     # re-enter a context object captured at an ancestor
  if kind == 'internal':
    r = rng.random()
    if r < 0.5:
      link['ctx'] = 'fresh:' + rng.choice(STATUSES)
    elif r < 0.75 and n_shared:
      link['ctx'] = 'shared:%d' % rng.randrange(n_shared)
    elif r < 0.88:
      link['ctx'] = 'current'
    else:
      # a context captured earlier (at the entry of an ancestor node) and re-entered
      # deeper in the tree, possibly with other regions in between - the documented
      # use of internal convert from inside a disabled region
      link['ctx'] = 'captured:%d' % rng.choice([2, 2, 3])
    link['by_default'] = rng.random() < 0.6
    link['ur'] = rng.random() < 0.5
  link['spec'] = _gen_node(rng, prefix, budget, depth + 1, max_depth, n_shared)
  if kind == 'dnc' and rng.random() < 0.35:
    # do_not_convert applied to something malt itself produced (an artifact)
    link['inner'] = rng.choice(['convert', 'convert_nour', 'to_graph'])
    link['rec'] = rng.random() < 0.7
    link['feats'] = rng.randrange(len(FEATSETS))
  if kind == 'dnc' and not link.get('inner') and rng.random() < 0.3:
    link['via_method'] = True      # do_not_convert as a decorator of a method, called as obj.method(...)
  if kind == 'dnc_gen':
    # a generator function under do_not_convert, stepped `steps` times and then
    # closed or exhausted; the spec's children run while it is suspended
    link['steps'] = rng.choice([1, 2])
    link['finish'] = rng.choice(['close', 'exhaust', 'abandon'])
    link['spec']['raise_at'] = None
    link['spec']['local'] = None
    link['spec']['first_in_block'] = None
  return link


def _gen_node(rng, prefix, budget, depth, max_depth, n_shared):
  budget[0] -= 1
  nid = '%s.%d' % (prefix, budget[1])
  budget[1] += 1
  children = []
  if depth < max_depth:
    want = rng.choice([0, 1, 1, 2, 2, 3])
    for _ in range(want):
      if budget[0] <= 0:
        break
      children.append(_gen_link(rng, prefix, budget, depth, max_depth, False, n_shared))
  raise_at = None
  if rng.random() < 0.3:
    raise_at = rng.randrange(len(children) + 1)
  forkp = rng.random() < 0.04
  return {'id': nid, 'children': children, 'raise_at': raise_at, 'forkp': forkp,
          'local': rng.choice([None, None, None, 'direct', 'dnc', 'dnc', 'escape']),
          'first_in_block': rng.choice([None, None, None, None, 'ENABLED', 'DISABLED', 'UNSPECIFIED']),
          'raise_kind': (rng.choice([1, 1, 2, 3, 3]) if (raise_at is not None and rng.random() < 0.4) else 0)}


def make_plan(seed, index, tier, sub):
  rng = random.Random('C16:%s:%s:%s:%s' % (seed, index, tier, sub))
  max_threads = 8 if tier == 'quick' else 32
  r = rng.random()
  if r < 0.15:
    nthreads = 1
  elif r < 0.75:
    nthreads = rng.randint(2, 4)
  else:
    nthreads = rng.randint(2, max_threads)
  n_shared = rng.choice([0, 1, 2])
  shared = [rng.choice(STATUSES) for _ in range(n_shared)]
  threads = []
  max_nodes = 12 if nthreads <= 8 else 6
  for t in range(nthreads):
    nroots = rng.choice([1, 1, 2, 3])
    budget = [rng.randint(2, max_nodes), 0]
    roots = []
    for _ in range(nroots):
      if budget[0] <= 0:
        break
      roots.append(_gen_link(rng, 't%d' % t, budget, 0, 4, True, n_shared))
    threads.append({'roots': roots})
  # stack exhaustion: in single-thread runs, sometimes dive through nested regions until
  # RecursionError (at several consecutive recursion limits, i.e. every stack alignment)
  if nthreads == 1 and rng.random() < 0.35:
    threads[0]['roots'].insert(rng.randrange(len(threads[0]['roots']) + 1),
                               {'kind': 'deep', 'catch': True, 'fn': 'a', 'via': rng.choice(['dnc', 'with', 'to_graph', 'mixed']),
                                'limits': rng.choice([6, 8, 10]),
                                'spec': {'id': 't0.deep', 'children': [], 'raise_at': None, 'raise_kind': 0,
                                         'local': None, 'first_in_block': None}})
  # thread generations: some threads are only created after an earlier one has
  # ended (thread identifiers get reused); the program may also forget the ended
  # thread's Thread object while a successor is inside a region
  if nthreads >= 2 and rng.random() < 0.3:
    for j in range(1, nthreads):
      if rng.random() < 0.5:
        threads[j]['after'] = rng.randrange(j)
        if rng.random() < 0.7:
          threads[j]['forget_at'] = rng.randint(5, 400)
  # shared-object focus: several threads sit inside the *same* context object at the same time while some of
  # them make calls under an unspecified status - whatever such a call does to "the current context" must not
  # be visible through the shared object
  frng = random.Random('C16focus:%s:%s:%s:%s' % (seed, index, tier, sub))
  if nthreads >= 2 and frng.random() < 0.15:
    if not shared:
      shared = ['ENABLED']
    if shared[0] == 'UNSPECIFIED':
      shared[0] = frng.choice(['ENABLED', 'DISABLED'])

    def focus(link):
      if link['kind'] == 'internal' and frng.random() < 0.8:
        link['ctx'] = 'shared:0'
      elif link['kind'] in ('plain', 'plain_try', 'with') and frng.random() < 0.5:
        link.pop('status', None)
        link.pop('ctxref', None)
        link['kind'] = 'unspec'
      for ch in link['spec']['children']:
        focus(ch)
    for tp in threads:
      for root in tp['roots']:
        if root['kind'] != 'deep':
          focus(root)
      # ... and the first root of every thread runs inside the shared object
      r0 = tp['roots'][0]
      if r0['kind'] != 'internal':
        tp['roots'][0] = {'kind': 'internal', 'catch': True, 'fn': frng.choice(NODE_NAMES), 'ctx': 'shared:0',
                          'by_default': True, 'ur': False,
                          'spec': {'id': r0['spec']['id'] + 'f', 'children': [dict(r0, catch=True)], 'raise_at': None,
                                   'raise_kind': 0, 'local': None, 'first_in_block': None, 'forkp': False}}
  plan = {
      'prop': 'C16', 'threads': threads, 'shared': shared,
      'ctx_copy': rng.random() < 0.25,
      'warm': rng.random() < 0.4,
      'opcodes': rng.random() < 0.15,
      'strategy': _gen_strategy(rng, nthreads),
      'faults': [],
  }
  if sub == 'faulty':
    pts = Z['points']
    nf = rng.choice([1, 1, 2, 3])
    for _ in range(nf):
      plan['faults'].append({
          'thread': rng.randrange(nthreads), 'point': rng.choice(pts),
          'nth': rng.choice([1, 1, 1, 2]), 'when': rng.choice(['entry', 'exit']),
          'exc': rng.choice(faults.EXC_MENU)})
  return plan


def _gen_strategy(rng, nthreads):
  r = rng.random()
  seed = rng.getrandbits(48)
  if nthreads == 1 or r < 0.1:
    return {'name': 'serial'}
  if r < 0.45:
    return {'name': 'random', 'seed': seed, 'p': rng.choice([0.02, 0.1, 0.3]), 'hot_mult': 1.0}
  if r < 0.7:
    return {'name': 'random', 'seed': seed, 'p': rng.choice([0.01, 0.03]), 'hot_mult': 10.0}
  return {'name': 'pct', 'seed': seed, 'depth': rng.choice([1, 2, 3]),
          'est_steps': rng.choice([300, 1500, 6000])}


def build_strategy(desc, schedule=None):
  if schedule is not None:
    return sched.ExplicitStrategy(schedule)
  n = desc['name']
  if n == 'serial':
    return sched.SerialStrategy()
  if n == 'random':
    return sched.RandomStrategy(desc['seed'], desc['p'], desc.get('hot_mult', 1.0))
  if n == 'pct':
    return sched.PCTStrategy(desc['seed'], desc['depth'], desc['est_steps'])
  raise ValueError(n)


# ---------------------------------------------------------------------------
# harness object visible to the user module as `H`
# ---------------------------------------------------------------------------
class ThreadState(object):

  def __init__(self, tid):
    self.tid = tid
    self.expect = []        # model stack: expected status name or None / ('is', obj)
    self.pending = []       # stack of [link, parent_expect, depth] awaiting the child's enter
    self.pre = {}           # id(link) -> (ctx object, expect depth, pending depth)
    self.trace = []         # compact history for samples
    self.captured = []      # context object current at the entry of each open node (parallel to expect)
    self.escaped = None     # (local function that escaped from a node, its spec)
    self.noncall = None     # context object seen by the last property-getter probe
    self.blk = None         # bookkeeping for a running blockfn leaf
    self.blocks = {}        # status name -> this thread's ControlStatusCtx for user blocks in converted code


class _Probe(object):

  def __init__(self, H):
    self._H = H

  @property
  def now(self):
    self._H.noncall_probe()
    return 0


class _Blocks(object):
  """BLOCKS['ENABLED'] etc.: a ControlStatusCtx per (thread, status), created on first use."""

  def __init__(self, H):
    self._H = H

  def for_thread(self, st, name):
    c = st.blocks.get(name)
    if c is None:
      c = st.blocks[name] = self._H.ag_ctx.ControlStatusCtx(getattr(self._H.ag_ctx.Status, name))
    return c

  def __getitem__(self, name):
    return self.for_thread(self._H._st(), name)


class Harness(object):

  def __init__(self, sim, plan, mod):
    import malt
    from malt.core import ag_ctx
    from malt.impl import api
    self.sim = sim
    self.plan = plan
    self.mod = mod
    self.malt = malt
    self.ag_ctx = ag_ctx
    self.api = api
    self.violations = []
    self.ts = {}                    # thread ident -> ThreadState
    self.seen = {}                  # id(ctx) -> (ctx, tid)
    self.shared = [ag_ctx.ControlStatusCtx(getattr(ag_ctx.Status, s)) for s in plan['shared']]
    self.shared_ids = set(id(c) for c in self.shared)
    self.nodes = {n: getattr(mod, 'node_' + n) for n in ALL_NODES}
    self.boom = mod.Boom
    self.abort = mod.Abort
    self.frozen = mod.Frozen
    self.check = mod.Check
    self.user_file = mod.__file__
    self.stats = {'nodes': 0, 'generated_nodes': 0, 'exc_crossings': 0, 'caught': 0,
                  'fallback_nodes': 0, 'to_graph_failed': 0, 'status_checks': 0,
                  'restore_checks': 0, 'max_region_depth': 0}
    self.dnc_wrapped = {}
    self.holder = mod.Holder()
    self.switch_in_region = False
    self.blocks = _Blocks(self)
    mod.P = _Probe(self)
    mod.BLOCKS = self.blocks
    # convert() wrappers created ahead of time, by this (main) thread, inside a disabled region
    self.premade = {}
    with ag_ctx.ControlStatusCtx(ag_ctx.Status.DISABLED):
      for t in plan['threads']:
        for link in _links_of(t):
          if link.get('premade') and link['kind'] == 'convert':
            key = (link['fn'], link['rec'], link['feats'], link['ur'])
            if key not in self.premade:
              self.premade[key] = malt.convert(recursive=link['rec'], optional_features=_feats(malt, link['feats']),
                                               user_requested=link['ur'])(getattr(mod, 'node_' + link['fn']))
    self.abstract = set()
    self.clean = not plan['faults']

  # -- helpers ---------------------------------------------------------------
  def _st(self):
    return self.ts[_thread.get_ident()]

  def viol(self, rule, msg, **kw):
    if len(self.violations) < 20:
      d = {'rule': rule, 'msg': msg}
      d.update(kw)
      self.violations.append(d)

  def cur_ctx(self, st):
    """Reads the current context object and applies the isolation rule S4."""
    with sched.atomic(self.sim):
      c = self.malt.control_status_ctx()
    ent = self.seen.get(id(c))
    if ent is None:
      self.seen[id(c)] = (c, st.tid)
    elif ent[1] != st.tid and id(c) not in self.shared_ids:
      self.viol('S4', 'thread %d observes a context object first seen by thread %d (%s)'
                % (st.tid, ent[1], _status_name(c)), sig='foreign-ctx')
    return c

  def _generated_caller(self):
    """True iff the innermost user-level frame below the probe is generated
    code (not the user module's own file)."""
    f = sys._getframe(2)
    root = boot.REPO_ROOT
    while f is not None:
      fn = f.f_code.co_filename
      if fn == self.user_file:
        return False
      if not fn.startswith(root) and '/dsim/' not in fn:
        return True
      f = f.f_back
    return False

  def _check_status(self, st, spec, where):
    exp = st.expect[-1] if st.expect else None
    c = self.cur_ctx(st)
    if exp is None:
      return
    self.stats['status_checks'] += 1
    got = _status_name(c)
    if isinstance(exp, tuple):
      if c is not exp[1]:
        self.viol('S2', 'node %s %s: current context is not the block\'s context object'
                  % (spec['id'], where), sig='with-ctx-identity')
      return
    if got != exp:
      rule = 'S3' if exp == 'ENABLED' else 'S2'
      self.viol(rule, 'node %s at %s: status %s, expected %s' % (spec['id'], where, got, exp),
                sig='status-%s-for-%s' % (got, exp))

  # -- probes called from the node functions (converted or native) ------------
  def enter(self, spec):
    st = self._st()
    self.stats['nodes'] += 1
    gen = self._generated_caller()
    blk = spec.get('first_in_block')
    if gen:
      self.stats['generated_nodes'] += 1
    if st.pending:
      link, pexp = st.pending[-1][0], st.pending[-1][1]
      exp = expected_status(link, pexp, gen, self)
      if link['kind'] in ('convert', 'internal', 'to_graph') and not gen:
        self.stats['fallback_nodes'] += 1
    else:
      exp = None
    st.expect.append(exp)
    st.captured.append(self.cur_ctx(st))
    self.stats['max_region_depth'] = max(self.stats['max_region_depth'], len(st.expect))
    st.trace.append('>%s%s' % (spec['id'], '*' if gen else ''))
    if blk:
      # this call sits inside the user's block: the block's own object is current, whatever the node is
      c = self.cur_ctx(st)
      self.stats['first_call_in_block'] = self.stats.get('first_call_in_block', 0) + 1
      if c is not self.blocks.for_thread(st, blk):
        self.viol('S2', 'node %s: inside its own `with` block (first call of the function) the current context '
                  'is not the block\'s object (%s)' % (spec['id'], _status_name(c)), sig='block-ctx-identity')
    else:
      self._check_status(st, spec, 'enter')
    # the status observed without a call, before the first call of the node
    nc = getattr(st, 'noncall', None)
    st.noncall = None
    if nc is not None and exp is not None and not isinstance(exp, tuple) and _status_name(nc) != exp:
      self.viol('S3' if exp == 'ENABLED' else 'S2',
                'node %s: status observed by a property getter before the first call of the function is %s, expected %s'
                % (spec['id'], _status_name(nc), exp), sig='noncall-status-%s-for-%s' % (_status_name(nc), exp))
    if spec.get('forkp'):
      self.fork_probe(spec)
    # abstract state (for the evidence): the modelled status stacks of all threads
    if len(self.abstract) < 400:
      self.abstract.add(repr(sorted((t.tid, [e if not isinstance(e, tuple) else 'ctx' for e in t.expect])
                                    for t in self.ts.values())))

  def fork_probe(self, spec):
    """The process forks inside the node (a forking data loader, multiprocessing's
    fork start method): the child continues on a copy of this thread, inside
    the same regions, and must see the same current context."""
    import os
    st = self._st()
    with sched.atomic(self.sim):
      exp = self.cur_ctx(st)
      r, w = os.pipe()
      try:
        pid = os.fork()
      except OSError:
        # (process table full: the probe is skipped, not failed)
        os.close(r)
        os.close(w)
        self.stats['fork_probes_skipped'] = self.stats.get('fork_probes_skipped', 0) + 1
        return
      if pid == 0:
        try:
          c = self.ag_ctx.control_status_ctx()
          os.write(w, ('%d:%s' % (1 if c is exp else 0, _status_name(c))).encode())
        finally:
          os._exit(0)
      os.close(w)
      data = os.read(r, 200).decode()
      os.close(r)
      os.waitpid(pid, 0)
    self.stats['fork_probes'] = self.stats.get('fork_probes', 0) + 1
    want = '1:%s' % _status_name(exp)
    if data != want:
      self.viol('S2', 'node %s: a process forked inside the node sees %r as the current context, the forking '
                'thread sees %r (same object: 1/0, status)' % (spec['id'], data, want), sig='fork-child-status')

  def mid(self, spec):
    self._check_status(self._st(), spec, 'mid')

  def leave(self, spec):
    st = self._st()
    self._check_status(st, spec, 'leave')
    st.trace.append('<%s' % spec['id'])
    st.expect.pop()
    if st.captured:
      st.captured.pop()

  def pick(self, link):
    if link.get('wrap') == 'dnc':
      w = self.dnc_wrapped.get(link['fn'])
      if w is None:
        w = self.dnc_wrapped[link['fn']] = self.api.do_not_convert(self.nodes[link['fn']])
      return w
    return self.nodes[link['fn']]

  def ours(self, e):
    """Is this an exception the workload raised itself?  A Frozen exception
    may legitimately arrive as the AttributeError its rejected attribute
    assignment produced (malt annotates exceptions on their way up)."""
    if isinstance(e, (self.boom, self.abort, self.frozen, self.check)):
      return True
    seen = 0
    c = e
    while c is not None and seen < 6:
      # (an exception type whose constructor malt cannot replay - e.g. a subclass of AssertionError - arrives
      # re-created as the documented StagingError, with the original as its context)
      if isinstance(c, (self.frozen, self.check)):
        return True
      c = c.__context__ or c.__cause__
      seen += 1
    return False

  def noncall_probe(self):
    """Called from the property getter P.now at the very start of a node (before
    its first call): records what the status is at that moment; `enter` judges it."""
    st = self.ts.get(_thread.get_ident())
    if st is not None:
      st.noncall = self.cur_ctx(st)

  def blk_probe(self, spec, where):
    """Inside blockfn: 'in' = inside the user's block (its object is current),
    'after' = after the block (the function's own status again)."""
    st = self._st()
    c = self.cur_ctx(st)
    self.stats['block_probes'] = self.stats.get('block_probes', 0) + 1
    blk_ctx = self.blocks.for_thread(st, spec['blk'])
    if where == 'in':
      if c is not blk_ctx:
        self.viol('S2', 'blockfn %s: inside its `with` block the current context is not the block\'s object (%s)'
                  % (spec['id'], _status_name(c)), sig='blockfn-in')
      return
    # (a block object that was already current when the function was called - re-entered by the block - is
    # legitimately current again after the block)
    if c is blk_ctx and (getattr(st, 'blk', None) or {}).get('before') is not blk_ctx:
      self.viol('S1', 'blockfn %s: after leaving its `with` block the block\'s context (%s) is still current'
                % (spec['id'], _status_name(c)), sig='blockfn-after-still-block')
      return
    info = getattr(st, 'blk', None)
    gen = self._generated_caller()
    if info is not None and info['pexp'] != 'DISABLED' and spec['ur'] and (gen or self.clean) \
        and _status_name(c) != 'ENABLED':
      self.viol('S3', 'blockfn %s: after its `with` block a user-requested converted function reports %s'
                % (spec['id'], _status_name(c)), sig='blockfn-after-status')

  def local_probe(self, spec, tag):
    """Status seen inside a local function of a node.  Called directly it sees
    what its parent sees; run inside a disabled region it reports disabled
    (it is not user requested by itself)."""
    st = self._st()
    c = self.cur_ctx(st)
    self.stats['local_probes'] = self.stats.get('local_probes', 0) + 1
    exp = st.expect[-1] if st.expect else None
    if tag in ('dnc', 'escaped'):
      exp = 'DISABLED'
    if exp is None or isinstance(exp, tuple):
      return
    got = _status_name(c)
    if got != exp:
      self.viol('S2' if exp != 'ENABLED' else 'S3',
                'local function of node %s (%s): status %s, expected %s' % (spec['id'], tag, got, exp),
                sig='local-%s-status-%s-for-%s' % (tag, got, exp))

  def hof_disabled(self, cb, spec):
    """A do_not_convert higher-order helper that calls back into a local
    function of converted code."""
    st = self._st()
    c0 = self.cur_ctx(st)
    self.malt.experimental.do_not_convert(lambda: cb('dnc'))()
    self._same_ctx(st, c0, {'spec': spec}, 'a callback run inside do_not_convert')

  def keep_local(self, cb, spec):
    """The local function escapes and is called later under do_not_convert."""
    self._st().escaped = (cb, spec)

  def ours_now(self):
    return self.ours(sys.exc_info()[1])

  def gen_step(self, spec, k):
    st = self._st()
    self.cur_ctx(st)
    st.trace.append('~%s.%d' % (spec['id'], k))

  def _raise(self, spec):
    k = spec.get('raise_kind')
    raise (self.abort if k == 1 else self.frozen if k == 2 else self.check if k == 3 else self.boom)(spec['id'])

  def lam_body(self, spec):
    """Body of the lambda node: same protocol as the def nodes, driven from
    harness code (a lambda cannot hold statements).  Plain children are native
    calls made by this unconverted helper."""
    if spec.get('first_in_block'):
      with self.blocks.for_thread(self._st(), spec['first_in_block']):
        self.enter(spec)
    else:
      self.enter(spec)
    i = 0
    for link in spec['children']:
      if spec['raise_at'] == i:
        self._raise(spec)
      self.call_child(spec, link)
      self.mid(spec)
      i += 1
    if spec['raise_at'] == i:
      self._raise(spec)
    self.leave(spec)
    return spec['id']

  def pre(self, spec, link):
    st = self._st()
    c = self.cur_ctx(st)
    st.pre[id(link)] = (c, len(st.expect), len(st.pending))
    pexp = st.expect[-1] if st.expect else None
    st.pending.append([link, pexp])

  def _restore(self, st, link, how):
    c0, d_exp, d_pend = st.pre.pop(id(link))
    del st.expect[d_exp:]
    del st.captured[d_exp:]
    del st.pending[d_pend:]
    c = self.cur_ctx(st)
    self.stats['restore_checks'] += 1
    if c is not c0:
      self.viol('S1', 'after %s child %s (%s): context is %s, was %s before the call'
                % (link['kind'], link['spec']['id'], how, _status_name(c), _status_name(c0)),
                sig='not-restored-%s-%s' % (link['kind'], how))

  def post(self, spec, link):
    self._restore(self._st(), link, 'return')

  def caught(self, spec, link):
    st = self._st()
    self.stats['caught'] += 1
    st.trace.append('!%s' % link['spec']['id'])
    self._restore(st, link, 'raise')

  def call_child(self, spec, link):
    """Harness-side call of a child through the wrapper its link names."""
    st = self._st()
    self.pre(spec, link)
    try:
      self._invoke(st, link)
    except BaseException as e:   # noqa: BLE001
      if isinstance(e, sched.SimAbort):
        raise
      st.trace.append('!%s' % link['spec']['id'])
      self.stats['exc_crossings'] += 1
      if link.get('feats', 0) >= 100 and isinstance(e, AssertionError) and 'not supported' in str(e):
        # the documented rejection of an unsupported feature: nothing ran, the status must be restored
        self.stats['rejected_feature_calls'] = self.stats.get('rejected_feature_calls', 0) + 1
        self._restore(st, link, 'raise')
        return
      if not self.ours(e):
        self.viol('S5', 'foreign exception %s crossed the boundary of %s child %s: %s'
                  % (type(e).__name__, link['kind'], link['spec']['id'], str(e)[:120]),
                  sig='foreign-%s' % type(e).__name__)
        self._restore(st, link, 'raise')
        return
      self._restore(st, link, 'raise')
      if not (link['catch'] or link['kind'] == 'plain_try'):
        raise
      self.stats['caught'] += 1
      return
    self._restore(st, link, 'return')
    esc = getattr(st, 'escaped', None)
    if esc is not None and spec is None:
      # a closure that escaped from converted code, called under do_not_convert
      st.escaped = None
      cb, sp = esc
      c0 = self.cur_ctx(st)
      saved, st.expect = st.expect, ['DISABLED']
      try:
        self.malt.experimental.do_not_convert(cb)('escaped')
      except BaseException as e:   # noqa: BLE001
        if isinstance(e, sched.SimAbort):
          raise
        if not self.ours(e):
          self.viol('S5', 'foreign exception %s from an escaped local function: %s' % (type(e).__name__, str(e)[:100]),
                    sig='foreign-%s' % type(e).__name__)
      finally:
        st.expect = saved
      self._same_ctx(st, c0, {'spec': sp}, 'an escaped local function run under do_not_convert')

  def _invoke(self, st, link):
    malt, ag_ctx, api = self.malt, self.ag_ctx, self.api
    kind = link['kind']
    fn = self.nodes[link['fn']]
    spec = link['spec']
    if link.get('as_partial'):
      import functools
      fn = functools.partial(functools.partial(fn))
    if kind in ('native', 'plain', 'plain_try'):
      if link.get('wrap') == 'dnc' and not link.get('as_partial'):
        fn = self.pick(link)
      return fn(spec)      # (plain kinds reach here only below a lambda node)
    if kind == 'convert':
      feats = _feats(malt, link['feats'])
      if link.get('blockfn'):
        bspec = dict(link['blockfn'], id=spec['id'], ur=link['ur'])
        st.blk = {'link': link, 'pexp': st.pending[-1][1] if st.pending else None, 'before': self.cur_ctx(st)}
        try:
          return malt.convert(recursive=link['rec'], optional_features=feats,
                              user_requested=link['ur'])(self.mod.blockfn)(bspec)
        finally:
          st.blk = None
      if link.get('callfree'):
        pexp = st.pending[-1][1] if st.pending else None
        st.noncall = None
        w = malt.convert(recursive=link['rec'], optional_features=feats, user_requested=link['ur'])(self.mod.callfree)
        w(spec)
        nc, st.noncall = st.noncall, None
        self.stats['callfree_probes'] = self.stats.get('callfree_probes', 0) + 1
        if nc is not None and self.clean and link['feats'] < 100:
          # (fault-free runs: nothing can legitimately stop the conversion the user asked for)
          want = 'DISABLED' if pexp == 'DISABLED' else ('ENABLED' if link['ur'] else None)
          if want is not None and _status_name(nc) != want:
            self.viol('S3' if want == 'ENABLED' else 'S2',
                      'call-free converted function %s (user_requested=%s, called under %s): a property getter '
                      'run by its body sees %s, expected %s' % (spec['id'], link['ur'], pexp, _status_name(nc), want),
                      sig='callfree-%s-for-%s' % (_status_name(nc), want))
        return spec['id']
      if link.get('cctx'):
        ctx = ag_ctx.ControlStatusCtx(getattr(ag_ctx.Status, link['cctx']))
        st.pending[-1].append(ctx)
        return malt.convert(recursive=link['rec'], optional_features=feats, user_requested=link['ur'],
                            conversion_ctx=ctx)(fn)(spec)
      if link.get('premade') and not link.get('as_partial'):
        key = (link['fn'], link['rec'], link['feats'], link['ur'])
        w = self.premade.get(key)
        if w is not None:
          self.stats['premade_wrapper_calls'] = self.stats.get('premade_wrapper_calls', 0) + 1
          return w(spec)
      return malt.convert(recursive=link['rec'], optional_features=feats,
                          user_requested=link['ur'])(fn)(spec)
    if kind == 'dnc':
      inner = link.get('inner')
      target = fn
      if inner in ('convert', 'convert_nour'):
        target = malt.convert(recursive=link['rec'], optional_features=_feats(malt, link['feats']),
                              user_requested=(inner == 'convert'))(fn)
      elif inner == 'to_graph':
        try:
          target = malt.to_graph(fn, recursive=link['rec'],
                                 experimental_optional_features=_feats(malt, link['feats']))
        except Exception:   # noqa: BLE001
          self.stats['to_graph_failed'] += 1
          return None
      if link.get('via_method') and not inner and not link.get('as_partial') and link['fn'] in NODE_NAMES:
        self.stats['dnc_method_calls'] = self.stats.get('dnc_method_calls', 0) + 1
        return getattr(self.holder, 'm_' + link['fn'])(spec)
      return malt.experimental.do_not_convert(target)(spec)
    if kind == 'dnc_gen':
      return self._run_generator(st, link)
    if kind == 'deep':
      return self._run_deep(st, link)
    if kind == 'unspec':
      return api.call_with_unspecified_conversion_status(fn)(spec)
    if kind == 'with':
      k = link.get('ctxref')
      if k and len(st.captured) >= k:
        ctx = st.captured[-k]
        self.stats['captured_ctx_reentered'] = self.stats.get('captured_ctx_reentered', 0) + 1
      else:
        ctx = ag_ctx.ControlStatusCtx(getattr(ag_ctx.Status, link['status']))
      st.pending[-1].append(ctx)
      with ctx:
        return fn(spec)
    if kind == 'internal':
      ctx = self._ctx_for(st, link)
      st.pending[-1].append(ctx)
      return malt.internal.convert(fn, ctx, convert_by_default=link['by_default'],
                                   user_requested=link['ur'])(spec)
    if kind == 'to_graph':
      feats = _feats(malt, link['feats'])
      try:
        g = malt.to_graph(fn, recursive=link['rec'], experimental_optional_features=feats)
      except Exception:   # noqa: BLE001  conversion-time failure: not C16's subject
        self.stats['to_graph_failed'] += 1
        return None
      return g(spec)
    raise ValueError(kind)

  def _run_generator(self, st, link):
    """A generator function wrapped by do_not_convert: creating it and every
    step are calls into the wrapper / its result; the status object must be
    the same after each of them, also while the generator is suspended."""
    spec = link['spec']
    c0 = self.cur_ctx(st)
    it = self.malt.experimental.do_not_convert(self.mod.gen_node)(spec)
    self._same_ctx(st, c0, link, 'creating the generator')
    for k in range(link.get('steps', 1)):
      next(it)
      self._same_ctx(st, c0, link, 'step %d of the generator' % (k + 1))
      self.stats['generator_steps'] = self.stats.get('generator_steps', 0) + 1
      # other regions are entered and left while the generator is suspended
      for child in spec['children']:
        self.call_child(None, dict(child, catch=True))
        self._same_ctx(st, c0, link, 'a region entered while the generator was suspended')
    fin = link.get('finish')
    if fin == 'close':
      it.close()
    elif fin == 'exhaust':
      for _ in it:
        pass
    self._same_ctx(st, c0, link, 'finishing the generator (%s)' % fin)

  def _run_deep(self, st, link):
    """Recursion through nested regions until the interpreter's stack limit is hit;
    the RecursionError is caught here, at the root, and the status must be the
    very object it was - whatever the alignment of the limit with the frames."""
    malt, ag_ctx = self.malt, self.ag_ctx
    via = link['via']
    c0 = self.cur_ctx(st)
    tg = None
    if via in ('to_graph', 'mixed'):
      try:
        tg = malt.to_graph(self.mod.deep_fn, recursive=False)
      except Exception:   # noqa: BLE001
        tg = None

    def dive(k):
      m = via if via != 'mixed' else ('dnc', 'with', 'to_graph')[k % 3]
      if m == 'dnc':
        return malt.experimental.do_not_convert(dive)(k + 1)
      if m == 'with':
        with ag_ctx.ControlStatusCtx(ag_ctx.Status.DISABLED):
          return dive(k + 1)
      if tg is not None:
        return tg(dive, k + 1)
      return dive(k + 1)
    old = sys.getrecursionlimit()
    depth = 0
    f = sys._getframe()
    while f is not None:
      depth += 1
      f = f.f_back
    try:
      with sched.atomic(self.sim):
        for off in range(link.get('limits', 8)):
          sys.setrecursionlimit(depth + 45 + off)
          try:
            dive(0)
          except RecursionError:
            self.stats['recursion_errors_caught'] = self.stats.get('recursion_errors_caught', 0) + 1
          finally:
            sys.setrecursionlimit(old)
          self._same_ctx(st, c0, link, 'a RecursionError unwound %s regions (limit offset %d)' % (via, off))
          if self.cur_ctx(st) is not c0:
            break
    finally:
      sys.setrecursionlimit(old)

  def _same_ctx(self, st, c0, link, what):
    c = self.cur_ctx(st)
    self.stats['restore_checks'] += 1
    if c is not c0:
      self.viol('S1', 'after %s (child %s): context is %s, was %s before'
                % (what, link['spec']['id'], _status_name(c), _status_name(c0)),
                sig='not-restored-generator')

  def _ctx_for(self, st, link):
    c = link['ctx']
    if c == 'current':
      return self.cur_ctx(st)
    if c.startswith('captured:'):
      k = int(c.split(':')[1])
      if len(st.captured) >= k:
        self.stats['captured_ctx_reentered'] = self.stats.get('captured_ctx_reentered', 0) + 1
        return st.captured[-k]
      return self.cur_ctx(st)
    if c.startswith('shared:'):
      return self.shared[int(c.split(':')[1]) % max(len(self.shared), 1)] if self.shared \
          else self.ag_ctx.ControlStatusCtx(self.ag_ctx.Status.UNSPECIFIED)
    return self.ag_ctx.ControlStatusCtx(getattr(self.ag_ctx.Status, c.split(':')[1]))


def _links_of(tplan):
  out = []

  def walk(link):
    out.append(link)
    for c in link['spec']['children']:
      walk(c)
  for r in tplan['roots']:
    walk(r)
  return out


def _feats(malt, idx):
  if idx >= 100:
    names = REJECTED_FEATSETS[(idx - 100) % len(REJECTED_FEATSETS)]
    return tuple(getattr(malt.experimental.Feature, n) for n in names)
  names = FEATSETS[idx % len(FEATSETS)]
  if not names:
    return None
  return tuple(getattr(malt.experimental.Feature, n) for n in names)


def _status_name(c):
  try:
    return c.status.name
  except Exception:   # noqa: BLE001
    return repr(c)[:40]


def expected_status(link, pexp, generated, H):
  """The status-stack model: what the statement (and the wrappers' documented
  behaviour) promise about the status inside the child node's own frame.
  None = nothing promised (only restoration, S1, applies)."""
  kind = link['kind']
  inherit = 'DISABLED' if pexp == 'DISABLED' else None
  if kind in ('plain', 'plain_try') and link.get('wrap') == 'dnc':
    return 'DISABLED'
  if kind in ('plain', 'plain_try', 'native'):
    return inherit
  if kind == 'convert' and link.get('cctx'):
    # the wrapper enters the given context object first: that status decides
    cs = link['cctx']
    if cs == 'DISABLED':
      return 'DISABLED'
    if cs == 'ENABLED':
      return 'ENABLED'
    if link['ur'] and (generated or H.clean):
      return 'ENABLED'
    return 'UNSPECIFIED'
  if kind == 'convert':
    if pexp == 'DISABLED':
      # convert() respects a disabled context: the function runs unconverted and
      # "inside a do_not_convert region it reports disabled" keeps holding
      return 'DISABLED'
    # In fault-free runs nothing can legitimately stop the conversion the user
    # asked for (the node functions are convertible, not allow-listed): the
    # node must then report ENABLED whether or not it is seen running generated
    # code.  With injected faults a fallen-back node is only subject to S1.
    if link['ur'] and (generated or H.clean):
      return 'ENABLED'
    return None
  if kind == 'dnc':
    # (also when the wrapped callable is a convert() wrapper: it respects the
    # disabled context; a to_graph result explicitly re-enables for itself)
    if link.get('inner') == 'to_graph':
      return 'ENABLED' if generated else None
    return 'DISABLED'
  if kind == 'unspec':
    return 'UNSPECIFIED'
  if kind == 'with':
    for ent in H._st().pending[::-1]:
      if ent[0] is link and len(ent) > 2:
        return _status_name(ent[2])     # the status of the context object actually entered
    return link['status']
  if kind == 'to_graph':
    return 'ENABLED' if generated else None
  if kind == 'internal':
    # the ctx object actually passed was appended to the pending entry
    ctx = None
    for ent in H._st().pending[::-1]:
      if ent[0] is link and len(ent) > 2:
        ctx = ent[2]
        break
    cs = _status_name(ctx) if ctx is not None else None
    if cs == 'DISABLED':
      return 'DISABLED'
    if cs == 'ENABLED':
      return 'ENABLED'
    if cs == 'UNSPECIFIED':
      if link['by_default'] and link['ur'] and (generated or H.clean):
        return 'ENABLED'
      return 'UNSPECIFIED'
    return None
  return None


# ---------------------------------------------------------------------------
# executing one plan
# ---------------------------------------------------------------------------
def execute(lane, plan, schedule, rdir, keep_log=False):
  import gc
  mod = Z['mod']
  strat = build_strategy(plan['strategy'], schedule)
  sim = sched.Sim(strat, max_steps=plan.get('max_steps', 200000), keep_log=keep_log)
  sim.tracer = sched.Tracer(sim, opcodes=plan.get('opcodes', False))
  H = Harness(sim, plan, mod)
  mod.H = H
  inj = faults.Injector()

  if plan.get('warm'):
    # pre-warm the conversion cache (single-threaded, before the simulation)
    import malt
    for n in ALL_NODES:
      for rec in (True, False):
        try:
          malt.to_graph(H.nodes[n], recursive=rec)
        except Exception:   # noqa: BLE001
          pass

  def make_target(tid, tplan):
    def target():
      st = ThreadState(tid)
      H.ts[_thread.get_ident()] = st
      for fp in plan['faults']:
        if fp['thread'] == tid:
          inj.arm(faults.Fault(fp['point'], fp['nth'], fp['when'], fp['exc'],
                               ident=faults._thread_key()))
      c_start = H.cur_ctx(st)
      for link in tplan['roots']:
        sim.point('op', 0, 0)
        H.call_child(None, link)
      c_end = H.cur_ctx(st)
      if c_end is not c_start:
        H.viol('S1', 'thread %d ends with context %s, started with %s'
               % (tid, _status_name(c_end), _status_name(c_start)), sig='thread-end')
      if st.expect or st.pending:
        H.viol('HARNESS', 'model stack not empty at thread end')
      return None
    return target

  base_ctx = None
  if plan.get('ctx_copy'):
    # threads whose first use of malt happens under a copy of the Context of a
    # thread that has used malt already (asyncio.to_thread, run_in_executor +
    # copy_context().run): the status must stay per thread all the same
    import contextvars
    import malt as _m
    _m.control_status_ctx()
    base_ctx = contextvars.copy_context()

  def under_copy(fn):
    def run():
      return base_ctx.copy().run(fn)
    return run
  for tid, tplan in enumerate(plan['threads']):
    tgt = make_target(tid, tplan)
    sim.add_thread('t%d' % tid, under_copy(tgt) if base_ctx is not None else tgt, after=tplan.get('after'))
    if tplan.get('after') is not None and tplan.get('forget_at'):
      def forget(sim_, thread, pred=tplan['after']):
        if sim_.forget_thread(pred):
          sim_.probe('ended_thread_object_forgotten')
      sim.at_point(tid, tplan['forget_at'], forget)

  def on_lock(kind, lock, thread):
    if kind == 'blocked':
      sim.probe('blocked_on_lock')
  sim.lock_listeners.append(on_lock)

  outcome = sim.run()
  res = {
      'status': 'ok', 'violations': H.violations, 'digest': sim.digest(),
      'steps': sim.steps, 'switches': sim.switches, 'threads': len(plan['threads']),
      'schedule': sim.segments, 'sim_outcome': outcome,
      'faults_fired': [list(x[:3]) for x in inj.fired_log],
      'stats': H.stats, 'probes': sim.probes,
      'switch_pairs': len(sim.switch_pairs),
      'abstract': sorted('%08x' % (__import__('zlib').crc32(x.encode())) for x in H.abstract),
      'switch_pair_hashes': sim.switch_pair_hashes(),
      'trace': {str(st.tid): ' '.join(st.trace)[:400] for st in H.ts.values()},
  }
  if keep_log:
    res['log'] = sim.log
  for t in sim.threads:
    if t.exc is not None:
      import traceback
      res['violations'].append({
          'rule': 'HARNESS', 'msg': 'thread %d died: %s' % (
              t.tid, ''.join(traceback.format_exception(type(t.exc), t.exc, t.exc.__traceback__))[-1500:])})
  if outcome['status'] != 'ok':
    res['status'] = 'inconclusive'
    res['detail'] = outcome
  harness = [v for v in res['violations'] if v['rule'] == 'HARNESS']
  real = [v for v in res['violations'] if v['rule'] != 'HARNESS']
  if harness:
    res['status'] = 'harness_error'
    res['detail'] = harness[0]['msg']
  elif real:
    res['status'] = 'violation'
  # non-triviality key
  nt = None
  st = H.stats
  if len(plan['threads']) >= 2 and sim.switches > len(plan['threads']) and st['max_region_depth'] >= 1:
    nt = 'mt:%s' % sim.digest()[:16]
  elif st['exc_crossings'] >= 2 or (st['caught'] >= 1 and st['max_region_depth'] >= 2):
    nt = 'st:%s' % sim.digest()[:16]
  res['nontrivial'] = nt
  return res


def run_job(lane, job, rdir):
  if job.get('mode') == 'explicit':
    plan = job['plan']
    schedule = job.get('schedule')
  else:
    plan = make_plan(job['seed'], job['index'], job['tier'], job['sub'])
    schedule = None
  res = execute(lane, plan, schedule, rdir, keep_log=job.get('keep_log', False))
  res['plan'] = plan
  return res


# ---------------------------------------------------------------------------
# minimisation candidates (plan -> smaller plans), used by the launcher
# ---------------------------------------------------------------------------
def shrink_candidates(plan):
  import copy
  out = []
  nt = len(plan['threads'])
  # drop a thread
  if nt > 1:
    for i in range(nt):
      p = copy.deepcopy(plan)
      del p['threads'][i]
      for t2 in p['threads']:
        if t2.get('after') is not None:
          if t2['after'] == i:
            t2.pop('after')
            t2.pop('forget_at', None)
          elif t2['after'] > i:
            t2['after'] -= 1
      p['faults'] = [dict(f, thread=(f['thread'] - (1 if f['thread'] > i else 0)))
                     for f in p['faults'] if f['thread'] != i]
      out.append(('drop-thread-%d' % i, p, {'drop_tid': i}))
  # drop a root
  for i, t in enumerate(plan['threads']):
    if len(t['roots']) > 1:
      for j in range(len(t['roots'])):
        p = copy.deepcopy(plan)
        del p['threads'][i]['roots'][j]
        out.append(('drop-root-%d-%d' % (i, j), p, {}))
  # drop a fault
  for i in range(len(plan['faults'])):
    p = copy.deepcopy(plan)
    del p['faults'][i]
    out.append(('drop-fault-%d' % i, p, {}))
  # prune subtrees / remove raises
  def walk(node, path):
    for ci, link in enumerate(node['children']):
      yield ('cut', path + [ci])
      for x in walk(link['spec'], path + [ci]):
        yield x
    if node['raise_at'] is not None:
      yield ('noraise', path)
      if node.get('raise_kind'):
        yield ('boom', path)
  for i, t in enumerate(plan['threads']):
    for j, root in enumerate(t['roots']):
      for what, path in list(walk(root['spec'], [])):
        p = copy.deepcopy(plan)
        node = p['threads'][i]['roots'][j]['spec']
        if what == 'cut':
          for ci in path[:-1]:
            node = node['children'][ci]['spec']
          del node['children'][path[-1]]
          if node['raise_at'] is not None and node['raise_at'] > len(node['children']):
            node['raise_at'] = len(node['children'])
        elif what == 'boom':
          for ci in path:
            node = node['children'][ci]['spec']
          node['raise_kind'] = 0
        else:
          for ci in path:
            node = node['children'][ci]['spec']
          node['raise_at'] = None
        out.append(('%s-%d-%d-%s' % (what, i, j, path), p, {}))
  if plan.get('warm'):
    p = copy.deepcopy(plan)
    p['warm'] = False
    out.append(('cold', p, {}))
  if plan.get('opcodes'):
    p = copy.deepcopy(plan)
    p['opcodes'] = False
    out.append(('no-opcodes', p, {}))
  return out
