"""C10 - the conversion cache is coherent, converts once, is thread-safe.

Workload: 1..N simulated threads issue to_graph / convert / converted_call
requests over a pool of real module files (closures of one factory, functions
defined in a loop, FunctionType twins with other globals, the same text loaded
as two modules = equal-but-distinct code objects, two versions of "function vf
of module simpool_m", lambdas, bound methods, a caller of other pool functions,
a function the pipeline rejects), with drop / gc events fired at seeded
pre-emption points and (faulty sub-batch) failures injected into conversions.

Oracle: the stateless "convert-fresh" reference (rules R1..R8, DESIGN.md
section 3): every response is compared with a conversion of the same function
object under the same options in a pristine world (new transpiler instance, new
allow-list cache) that has never seen any other request.
"""
import gc
import os
import random
import sys
import types
import weakref
import _thread

from dsim import common, faults, sched, boot
from dsim.props.c16 import build_strategy, _gen_strategy

FEATSETS = [(), ('EQUALITY_OPERATORS',), ('BUILTIN_FUNCTIONS',), ('BUILTIN_FUNCTIONS', 'LISTS'),
            ('EQUALITY_OPERATORS', 'LISTS'),
            ('ASSERT_STATEMENTS', 'EQUALITY_OPERATORS', 'BUILTIN_FUNCTIONS', 'LISTS')]
XS = (0, 1, 2, 3, 5, 99)

MAIN_SRC = '''\
import functools

K = 0
OUT = None


def helper(x):
  if x > K:
    return x - K
  return x + K


def plain(x, l):
  acc = 7
  if x == 2:
    acc = acc + 1
  print('p', x, file=OUT)
  l.append(acc)
  t = []
  t.append(x)
  i = 0
  while i < 2:
    acc = acc + helper(i + x)
    i += 1
  return ('plain', acc, len(t), K)


def make_adder(n):
  def adder(x, l):
    acc = n
    if x == 3:
      acc = acc + 1
    print('a', x, file=OUT)
    l.append(acc)
    t = []
    t.append(n)
    for j in range(2):
      acc = acc + helper(j + n)
    return ('adder', acc, len(t), n, K)
  return adder


def make_loopfns():
  fns = []
  for d in (1, 2, 3):
    def lf(x, l, d=d, *, kw=(d * 10,)):
      acc = d
      if x == d:
        acc = acc + kw[0]
      print('l', x, file=OUT)
      l.append(acc)
      return ('lf', acc, d, kw, K)
    fns.append(lf)
  return fns


lam = lambda x, l: ('lam', x + K if x == 3 else x - K, l.append(x))


class Box(object):

  def __init__(self, w):
    self.w = w

  def m(self, x, l):
    acc = self.w
    if x == 1:
      acc = acc + helper(x)
    l.append(acc)
    return ('m', acc, self.w, K)


def cal_target(x, l):
  if x == 5:
    l.append('five')
  return ('ct', x + K)


def caller(x, l):
  r = cal_target(x, l)
  s = helper(x)
  return ('caller', r, s)


def deco(f):
  @functools.wraps(f)
  def wrapper(x, l):
    l.append('w')
    if x == 0:
      return ('wrapped-early', K)
    return ('wrapper', f(x, l))
  return wrapper


def inner_target(x, l):
  if x == 3:
    l.append('three')
  return ('inner', x - K)


decorated = deco(inner_target)


def reent_target(x, l):
  if x == 1:
    l.append('re')
  return ('reent', x * K)


class _Trigger(object):
  """A module global whose inspection runs user code that converts another
  function (what a lazily loaded module does on first attribute access): a
  conversion started while another one is in progress on the same thread."""
  fired = False

  @property
  def __module__(self):
    if not _Trigger.fired:
      import sys
      f = sys._getframe(1)
      outer = None
      while f is not None:
        if f.f_code.co_name == 'transform_function' and 'fn' in f.f_locals:
          outer = f.f_locals['fn']
          break
        f = f.f_back
      # (converting reent_target from inside its own conversion would transform it twice by design)
      if outer is not None and getattr(outer, '__code__', None) is not reent_target.__code__:
        _Trigger.fired = True
        import malt
        malt.to_graph(reent_target)
    return 'simpool_trigger'


TRIGGER = _Trigger()


def make_dual(which):
  # two definitions with the same file and qualified name, different code
  if which:
    def dual(x, l):
      if x == 1:
        l.append('one')
      return ('dual-a', x + K)
  else:
    def dual(x, l):
      if x == 1:
        l.append('uno')
      return ('dual-b', x * 2 - K)
  return dual


def nameerr(x, l):
  if x == 99:
    l.append('ne')
    return undefined_name_zz      # a run-time NameError of the user's own program
  return ('nameerr', x + K)


def make_shift(bias):
  def shifted(x, l):
    if x == 2:
      l.append('sh')
    return ('shift', x + bias)
  return shifted


bias = 40


# the same text as the function nested in make_shift, in another lexical context (bias is a global here)
def shifted(x, l):
  if x == 2:
    l.append('sh')
  return ('shift', x + bias)


def bad(x, l):
  for i in range(x):
    l.append(i)
  else:
    l.append(-1)
  return ('bad', x, K)
'''

G_SRC = '''\
import builtins as _b

K = 1000
OUT = None


def helper(x):
  return x * 2


# this namespace shadows builtins the pool bodies call
def len(x):
  return 100 + _b.len(x)


def range(n):
  return _b.range(n + 1)
'''

FUT_SRC = '''\
from __future__ import annotations

import functools
import typing

if typing.TYPE_CHECKING:
  from nowhere import Missing      # only for type checkers: not importable at run time

K = 2
OUT = None


def fut(x: Missing, l: Missing) -> Missing:
  if x == 2:
    l.append('two')
  return ('fut', x + K)


def wrap_foreign(f):
  # a wrapper living here (annotations are lazy in this module) that reports
  # the wrapped function's __module__ / __qualname__
  @functools.wraps(f)
  def wrapper(x: Missing, l: Missing) -> Missing:
    if x == 1:
      l.append('one')
    return ('fwrap', f(x, l), K)
  return wrapper
'''

VER_SRC = '''\
K = 5
OUT = None


def helper(x):
  if x > K:
    return x - K
  return x + K


def vf(x, l):
  acc = %(c1)d
  if x == %(c2)d:
    acc = acc + helper(x)
  l.append(acc)
  return ('vf', acc, K)
'''


class Sink(object):

  def __init__(self):
    self.n = 0

  def write(self, s):
    self.n += 1

  def flush(self):
    pass


Z = {}


class Entry(object):
  """One pool member."""
  __slots__ = ('fid', 'name', 'fn', 'self_obj', 'globals', 'cells', 'defaults',
               'kwdefaults', 'droppable', 'dropper', 'cid', 'group', 'rejects', 'calls', 'mutated')

  def __init__(self, fid, name, fn, droppable=False, dropper=None, self_obj=None,
               group=None, rejects=False, calls=()):
    self.fid = fid
    self.name = name
    self.fn = fn
    self.self_obj = self_obj
    func = getattr(fn, '__func__', fn)
    self.globals = func.__globals__
    self.cells = dict(zip(func.__code__.co_freevars, func.__closure__ or ()))
    self.defaults = func.__defaults__
    self.kwdefaults = func.__kwdefaults__
    self.droppable = droppable
    self.dropper = dropper
    self.cid = None
    self.group = group
    self.rejects = rejects
    self.calls = calls
    self.mutated = False


def build_universe(lane, u):
  """Writes and loads the pool modules of universe `u` (zygote-side)."""
  rng = random.Random('C10-universe:%d' % u)
  base = os.path.join(lane.scratch, 'zygote', 'u%d' % u)
  sink = Sink()
  pa = os.path.join(base, 'a', 'simpool_a.py')
  pb = os.path.join(base, 'b', 'simpool_b.py')
  pg = os.path.join(base, 'g', 'simpool_g.py')
  pv1 = os.path.join(base, 'v1', 'simpool_m.py')
  pv2 = os.path.join(base, 'v2', 'simpool_m.py')
  common.write_module(pa, MAIN_SRC)
  common.write_module(pb, MAIN_SRC)
  common.write_module(pg, G_SRC)
  c1 = rng.randrange(100, 200)
  c2 = rng.choice([1, 2, 3])
  common.write_module(pv1, VER_SRC % {'c1': c1, 'c2': c2})
  common.write_module(pv2, VER_SRC % {'c1': c1 + 100, 'c2': c2})
  a = common.load_module('simpool_a', pa)
  b = common.load_module('simpool_b', pb)
  g = common.load_module('simpool_g', pg)
  pf = os.path.join(base, 'f', 'simpool_f.py')
  common.write_module(pf, FUT_SRC)
  fmod = common.load_module('simpool_f', pf)
  fmod.OUT = sink
  v1 = common.load_module('simpool_m', pv1)
  v2 = common.load_module('simpool_m', pv2)     # "redefinition": same module name, newer file
  a.K, b.K = rng.randrange(2, 6), rng.randrange(6, 10)
  for m in (a, b, g, v1, v2):
    m.OUT = sink
  ns = [rng.randrange(10, 20), rng.randrange(20, 30), rng.randrange(30, 40)]
  a_adders = [a.make_adder(ns[0]), a.make_adder(ns[1])]
  b_adders = [b.make_adder(ns[2])]
  a_lfs = a.make_loopfns()
  twin_plain = types.FunctionType(a.plain.__code__, g.__dict__, 'plain')
  twin_adder = types.FunctionType(a_adders[0].__code__, g.__dict__, 'adder', None,
                                  a_adders[0].__closure__)
  box1, box2 = a.Box(rng.randrange(40, 50)), a.Box(rng.randrange(50, 60))
  lists = {'a_adders': a_adders, 'b_adders': b_adders, 'a_lfs': a_lfs,
           'twins': [twin_plain, twin_adder]}
  E = []

  def add(name, fn, **kw):
    e = Entry(len(E), name, fn, **kw)
    E.append(e)
    return e

  def del_attr(mod, attr):
    def d():
      mod.__dict__.pop(attr, None)
    return d

  def del_item(lst, i):
    def d():
      lst[i] = None
    return d
  add('a.plain', a.plain, droppable=True, dropper=del_attr(a, 'plain'), group='plain')
  add('b.plain', b.plain, droppable=True, dropper=del_attr(b, 'plain'), group='plain')
  add('a.adder0', a_adders[0], group='adder')
  add('a.adder1', a_adders[1], droppable=True, dropper=del_item(a_adders, 1), group='adder')
  add('b.adder0', b_adders[0], droppable=True, dropper=del_item(b_adders, 0), group='adder')
  add('a.lf0', a_lfs[0], group='lf')
  add('a.lf1', a_lfs[1], droppable=True, dropper=del_item(a_lfs, 1), group='lf')
  add('a.lf2', a_lfs[2], droppable=True, dropper=del_item(a_lfs, 2), group='lf')
  add('g.twin_plain', twin_plain, droppable=True, dropper=del_item(lists['twins'], 0), group='plain')
  add('g.twin_adder', twin_adder, droppable=True, dropper=del_item(lists['twins'], 1), group='adder')
  add('m.vf@v1', v1.vf, droppable=True, dropper=del_attr(v1, 'vf'), group='vf')
  add('m.vf@v2', v2.vf, group='vf')
  add('a.lam', a.lam, group='lam')
  add('b.lam', b.lam, droppable=True, dropper=del_attr(b, 'lam'), group='lam')
  add('a.box1.m', box1.m, self_obj=box1, group='m')
  add('a.box2.m', box2.m, self_obj=box2, group='m')
  add('a.caller', a.caller, group='caller', calls=('cal_target', 'helper'))
  add('a.bad', a.bad, group='bad', rejects=True)
  # callees of a.caller, also requested directly (first converted as a callee, then on request - or the reverse)
  add('a.cal_target', a.cal_target, group='caller')
  add('a.helper', a.helper, group='caller')
  add('a.reent_target', a.reent_target, group='caller')
  duals = [a.make_dual(True), a.make_dual(False)]
  lists['duals'] = duals
  add('a.dual@if', duals[0], group='dual')
  add('a.dual@else', duals[1], droppable=True, dropper=del_item(duals, 1), group='dual')
  # functions compiled under `from __future__ import annotations` (their annotations name things that
  # do not exist at run time); one of them reports another module's __module__
  add('f.fut', fmod.fut, group='future')
  add('f.fwrap(a.inner_target)', fmod.wrap_foreign(a.inner_target), group='future')
  # a functools.wraps wrapper and the function it wraps: distinct code objects linked by __wrapped__
  add('a.decorated', a.decorated, group='deco')
  add('a.inner_target', a.inner_target, group='deco')
  add('a.nameerr', a.nameerr, group='nameerr')
  add('a.shift@closure', a.make_shift(3), group='shift')
  add('a.shift@global', a.shifted, group='shift')
  # harness ids for code objects (identity, never id() at comparison time)
  codes = []
  for e in E:
    co = getattr(e.fn, '__func__', e.fn).__code__
    for i, c in enumerate(codes):
      if c is co:
        e.cid = i
        break
    else:
      e.cid = len(codes)
      codes.append(co)
  # callees that converted code reaches at call time
  extra = [a.helper, b.helper, a.cal_target, v1.helper, v2.helper]
  for f in extra:
    if not any(c is f.__code__ for c in codes):
      codes.append(f.__code__)
  from malt.impl import api as _api
  _api.autograph_artifact(a_adders[1])     # one closure of the shared code object is marked "already converted"
  U = {'u': u, 'entries': E, 'mods': {'a': a, 'b': b, 'g': g, 'v1': v1, 'v2': v2},
       'paths': {'a': pa, 'b': pb, 'v1': pv1, 'v2': pv2},
       'lists': lists, 'sink': sink,
       'code_ids': CodeIds(codes),
       'code_refs': [weakref.ref(c) for c in codes],
       }
  del codes
  return U


def init_zygote(lane):
  import malt
  Z['lane'] = lane
  Z['universes'] = {}
  U = get_universe(lane, 0)
  feats = _feats(malt, len(FEATSETS) - 1)

  def disc():
    pts = faults.discover(
        lambda: malt.to_graph(U['entries'][0].fn, recursive=True,
                              experimental_optional_features=feats),
        boot.REPO_ROOT)
    return [pts, list(faults.SCOPE_KEYS)]
  pts, scope = _fork_compute(disc, os.path.join(lane.scratch, 'zygote', 'disc'))
  faults.SCOPE_KEYS[:] = scope
  Z['points'] = faults.usable_points(pts)
  _install_counters()


class CodeIds(object):
  """Harness identities for code objects: never a bare id() (addresses of dead
  code objects are reused), always validated through a weak reference."""

  def __init__(self, codes=()):
    self._by_addr = {}
    self._next = 0
    self._sealed = False
    for c in codes:
      self.of(c)
    self._sealed = True

  def of(self, code, prefer=None):
    if code is None:
      return None
    ent = self._by_addr.get(id(code))
    if ent is not None and ent[0]() is code:
      return ent[1]
    if prefer is not None:
      cid = prefer
    else:
      # universe codes are numbered 0..n-1 in the zygote; anything first seen
      # later gets a name of its own, from a namespace nothing else uses
      cid = self._next if not self._sealed else 'x%d' % self._next
      self._next += 1
    self._by_addr[id(code)] = (weakref.ref(code), cid)
    return cid

  def copy(self):
    c = CodeIds()
    c._by_addr = dict(self._by_addr)
    c._next = self._next
    c._sealed = True
    return c


def get_universe(lane, u):
  if u not in Z['universes']:
    Z['universes'][u] = build_universe(lane, u)
  return Z['universes'][u]


def _feats(malt, idx, spell=0):
  """The feature set `idx`, spelled one of the ways the API accepts: tuple (as
  listed / reversed), set, list, or a bare Feature for singletons.  Every
  spelling denotes the same option value."""
  names = FEATSETS[idx % len(FEATSETS)]
  if not names:
    return None
  fs = tuple(getattr(malt.experimental.Feature, n) for n in names)
  spell = (spell or 0) % 5
  if spell == 1:
    return fs[::-1]
  if spell == 2:
    return set(fs)
  if spell == 3:
    return list(fs[::-1])
  if spell == 4 and len(fs) == 1:
    return fs[0]
  return fs


# ---------------------------------------------------------------------------
# transformation counter (R5) - wraps the documented override point
# ---------------------------------------------------------------------------
COUNT = {'active': None}     # active -> dict with 'real' set, 'done' dict, 'by_thread'


def _install_counters():
  from malt.pyct import transpiler
  from malt.impl import api
  seen = set()
  for cls in (api.PyToPy, transpiler.PyToPy):
    for klass in cls.__mro__:
      if 'transform_ast' in vars(klass) and klass not in seen and klass is not object:
        seen.add(klass)
        _wrap_transform_ast(klass)
  _wrap_transform_function(transpiler.PyToPy)


def _wrap_transform_ast(klass):
  orig = vars(klass)['transform_ast']

  def transform_ast(self, node, ctx):
    res = orig(self, node, ctx)
    act = COUNT['active']
    if act is not None:
      # (every conversion in the run child belongs to the system under test:
      # references are computed in other processes)
      st = act['by_thread'].get(_thread.get_ident())
      if st:
        st[-1][1] += 1
    return res
  transform_ast.__wrapped_stage__ = orig
  klass.transform_ast = transform_ast


def _wrap_transform_function(klass):
  orig = vars(klass)['transform_function']

  def transform_function(self, fn, user_context):
    act = COUNT['active']
    if act is None:
      return orig(self, fn, user_context)
    ident = _thread.get_ident()
    st = act['by_thread'].setdefault(ident, [])
    code = getattr(getattr(fn, '__func__', fn), '__code__', None)
    cid = act['code_ids'].of(code)
    try:
      opt = common._opts_tuple(self.get_caching_key(user_context))
    except Exception:   # noqa: BLE001
      opt = ('?',)
    st.append([(cid, opt), 0])
    act['requests'] += 1
    ok = False
    try:
      res = orig(self, fn, user_context)
      ok = True
      return res
    finally:
      key, n = st.pop()
      if n:
        act['transforms'] += 1
      if ok and n:
        act['done'][key] = act['done'].get(key, 0) + n
        act['who'].setdefault(key, []).append(act['tid_of'](ident))
  transform_function.__wrapped_stage__ = orig
  klass.transform_function = transform_function


# ---------------------------------------------------------------------------
# references: "convert-fresh" computed in forked oracle processes
# ---------------------------------------------------------------------------
# Every reference is computed in its own freshly forked copy of the (pristine)
# zygote image, before the simulation starts, and comes back as plain data
# (outcomes + operator traces).  A reference therefore cannot share *any* state
# with the system under test or with another reference - not even a cache or
# memo that a change to malt introduces and that the harness knows nothing
# about.  (An earlier version swapped fresh cache instances in-process; a seeded
# change that added a new module-level memo contaminated those references.)
class RefError(Exception):
  pass


def _fork_compute(thunk, tmpdir):
  import json
  import tempfile
  import traceback
  r, w = os.pipe()
  sys.stdout.flush()
  sys.stderr.flush()
  pid = os.fork()
  if pid == 0:
    code = 0
    try:
      os.close(r)
      os.makedirs(tmpdir, exist_ok=True)
      tempfile.tempdir = tmpdir
      try:
        res = {'ok': thunk()}
      except BaseException:
        res = {'err': traceback.format_exc()[-2500:]}
      with os.fdopen(w, 'wb') as f:
        f.write(json.dumps(res).encode())
    except BaseException:
      code = 3
    finally:
      os._exit(code)
  os.close(w)
  with os.fdopen(r, 'rb') as f:
    data = f.read()
  os.waitpid(pid, 0)
  try:
    res = json.loads(data.decode())
  except ValueError:
    raise RefError('oracle process died without a result')
  if 'err' in res:
    raise RefError(res['err'])
  return res['ok']


def _traced_call(g, self_obj, x):
  l = []
  with common.optrace() as tr:
    if self_obj is None:
      o = common.outcome(g, x, l)
    else:
      o = common.outcome(g, self_obj, x, l)
  return [[o[0], common.jsonable(o[1]), common.jsonable(l)], _norm_trace(tr)]


def _rebind(e):
  """Rebinds the module global K and the integer closure cells of a pool member
  (the same way in the oracle process and in the run); returns undo thunks."""
  undo = []
  if 'K' in e.globals:
    old = e.globals['K']
    e.globals['K'] = old + 111
    undo.append(lambda old=old: e.globals.__setitem__('K', old))
  for name, cell in e.cells.items():
    try:
      oldc = cell.cell_contents
    except ValueError:
      continue
    if isinstance(oldc, int):
      cell.cell_contents = oldc + 7
      undo.append(lambda cell=cell, oldc=oldc: setattr(cell, 'cell_contents', oldc))
  return undo


def _probe_sequence(g, e, self_obj, probe_xs):
  """The probe protocol applied to a served function and to its reference."""
  out = {}
  for phase in ('as-is', 'rebound'):
    undo = _rebind(e) if phase == 'rebound' else []
    if phase == 'rebound' and not undo:
      break
    try:
      for x in probe_xs:
        out['%s:%s' % (phase, x)] = _traced_call(g, self_obj, x)
    finally:
      for u in undo:
        u()
  return out


def _ref_tg(U, fid, rec, fi, probe_xs, call_xs):
  import malt
  e = U['entries'][fid]
  try:
    G = malt.to_graph(e.fn, recursive=rec, experimental_optional_features=_feats(malt, fi))
  except Exception as ex:   # noqa: BLE001
    return {'kind': 'exc', 'exc': type(ex).__name__}
  out = {'kind': 'fn', 'calls': {}}
  for x in call_xs:
    out['calls'][str(x)] = _traced_call(G, e.self_obj, x)
  out['probes'] = _probe_sequence(G, e, e.self_obj, probe_xs)
  return out


def _ref_call(U, fid, op):
  import malt
  from malt.impl import api
  from malt.core import converter
  e = U['entries'][fid]
  return _traced_call(_call_thunk(malt, api, converter, e.fn, op), None, op['x'])


def _load_fresh(base, U, slot, ver, inplace=False):
  name = 'simfresh_%d' % slot
  text = VER_SRC % {'c1': 1000 * (slot + 1) + 10 * (ver % 10), 'c2': ver % 4}
  if inplace:
    # the module file is rewritten IN PLACE with a text of the same size, its
    # modification time put back, and the module loaded again (edit + reload in
    # the same second): only the content tells the versions apart
    path = os.path.join(base, 'fresh', 's%d_inplace' % slot, name + '.py')
    old = os.stat(path) if os.path.exists(path) else None
    common.write_module(path, text)
    if old is not None:
      os.utime(path, ns=(old.st_atime_ns, old.st_mtime_ns))
  else:
    path = os.path.join(base, 'fresh', 's%d_v%d' % (slot, ver), name + '.py')
    common.write_module(path, text)
  mod = common.load_module(name, path)
  mod.OUT = U['sink']
  mod.K = 3 + ver
  return mod


def _ref_fresh(U, op, base):
  import malt
  mod = _load_fresh(base, U, op['slot'], op['ver'], False)      # the reference reads the text from a file of its own
  try:
    G = malt.to_graph(mod.vf, recursive=op['rec'], experimental_optional_features=_feats(malt, op['feats']))   # canonical spelling
  except Exception as ex:   # noqa: BLE001
    return {'kind': 'exc', 'exc': type(ex).__name__}
  return {'kind': 'fn', 'call': _traced_call(G, None, op['x'])}


def _apply_mutation(f, what):
  if what == 'defaults' and f.__defaults__:
    f.__defaults__ = tuple((d + 100) if isinstance(d, int) else d for d in f.__defaults__)
    return True
  if what == 'kwdefaults' and f.__kwdefaults__:
    f.__kwdefaults__ = {k: (777,) for k in f.__kwdefaults__}
    return True
  if what == 'code' and not f.__code__.co_freevars and 'cal_target' in f.__globals__ \
      and f.__code__ is not f.__globals__['cal_target'].__code__:
    f.__code__ = f.__globals__['cal_target'].__code__
    return True
  return False


def _request(malt, api, converter, f, req):
  """Performs request `req` (tg+call / cv / cc) on f; -> [outcome, trace]."""
  if req['op'] == 'tg':
    l = []
    with common.optrace() as tr:
      try:
        g = malt.to_graph(f, recursive=req['rec'],
                          experimental_optional_features=_feats(malt, req['feats'], req.get('spell')))
        o = common.outcome(g, req['x'], l)
      except Exception as ex:   # noqa: BLE001
        o = ('exc', 'conversion:' + type(ex).__name__)
    return [[o[0], common.jsonable(o[1]), common.jsonable(l)], _norm_trace(tr)]
  return _traced_call(_call_thunk(malt, api, converter, f, req), None, req['x'])


def _ref_mutate(U, op):
  import malt
  from malt.impl import api
  from malt.core import converter
  e = U['entries'][op['fid']]
  if e.fn is None or e.self_obj is not None or not _apply_mutation(e.fn, op['what']):
    return None
  return _request(malt, api, converter, e.fn, op['then'])


def _call_thunk(malt, api, converter, f, op):
  """Returns callable(x, l) performing the op's request on f (inside a
  conversion-disabled region when the op says so)."""
  inner = _call_thunk_inner(malt, api, converter, f, op)
  if not op.get('disabled'):
    return inner
  from malt.core import ag_ctx

  def in_disabled_region(x, l):
    with ag_ctx.ControlStatusCtx(ag_ctx.Status.DISABLED):
      return inner(x, l)
  return in_disabled_region


def _call_thunk_inner(malt, api, converter, f, op):
  if op['op'] == 'cv':
    w = malt.convert(recursive=op['rec'], optional_features=_feats(malt, op['feats'], op.get('spell')),
                     user_requested=op['ur'])(f)
    return w
  opts = converter.ConversionOptions(
      recursive=op['rec'], user_requested=op['ur'], internal_convert_user_code=op['icuc'],
      optional_features=_feats(malt, op['feats'], op.get('spell')))
  kwmode = op.get('kw', 'none')

  def call(x, l):
    if kwmode == 'none':
      return api.converted_call(f, (x, l), None, options=opts)
    if kwmode == 'empty':
      return api.converted_call(f, (x, l), {}, options=opts)
    return api.converted_call(f, (x,), {'l': l}, options=opts)
  return call


def _norm_trace(tr):
  out = []
  for t in tr:
    out.append(list(t) if isinstance(t, tuple) else t)
  return common.jsonable(out)


def _ckey(fid, op):
  if op['op'] == 'cv':
    okey = ('cv', op['rec'], op['ur'], op['feats'], bool(op.get('disabled')))
  else:
    okey = ('cc', op['rec'], op['ur'], op['icuc'], op['feats'], op.get('kw', 'none'), bool(op.get('disabled')))
  return ('call', fid, okey, op['x'])


def build_refs(lane, plan, rdir):
  """Run-child side, before the simulation: every reference the plan needs, each
  from its own oracle fork.  Nothing here depends on run-time events: the
  reference model is stateless, so the plan alone determines it."""
  U = get_universe(lane, plan['universe'])
  refs = {}
  n = [0]

  def compute(key, thunk):
    if key not in refs:
      n[0] += 1
      refs[key] = _fork_compute(thunk, os.path.join(rdir, 'oracle', 'o%03d' % n[0]))
  optsets = set()
  call_xs = {}
  for t in plan['threads']:
    for op in t['ops']:
      if op['op'] in ('tg', 'fresh'):
        optsets.add((op['rec'], op['feats']))
      if op['op'] == 'tg' and op.get('call') is not None:
        call_xs.setdefault((op['fid'], op['rec'], op['feats']), set()).add(op['call'])
  fids = sorted(set(op['fid'] for t in plan['threads'] for op in t['ops'] if op['fid'] >= 0))
  faulty = bool(plan['faults']) or plan.get('sub') == 'faulty'
  want_tg = set((op['fid'], op['rec'], op['feats']) for t in plan['threads'] for op in t['ops'] if op['op'] == 'tg')
  if faulty:
    want_tg |= set((fid, rec, fi) for fid in fids for rec, fi in optsets)
  for fid, rec, fi in sorted(want_tg):
    xs = sorted(call_xs.get((fid, rec, fi), ()))
    compute(('tg', fid, rec, fi),
            lambda fid=fid, rec=rec, fi=fi, xs=xs: _ref_tg(U, fid, rec, fi, plan['probe_xs'], xs))
  for ti, t in enumerate(plan['threads']):
    for oi, op in enumerate(t['ops']):
      if op['op'] in ('cv', 'cc'):
        compute(_ckey(op['fid'], op), lambda op=op: _ref_call(U, op['fid'], op))
      elif op['op'] == 'fresh':
        compute(('fresh', op['slot'], op['ver'], op['rec'], op['feats'], op['x']),
                lambda op=op: _ref_fresh(U, op, os.path.join(rdir, 'oracle')))
      elif op['op'] == 'mutate':
        compute(('mutate', ti, oi), lambda op=op: _ref_mutate(U, op))
  return refs


# ---------------------------------------------------------------------------
# plan generation
# ---------------------------------------------------------------------------
def make_plan(seed, index, tier, sub):
  rng = random.Random('C10:%s:%s:%s:%s' % (seed, index, tier, sub))
  max_threads = 8 if tier == 'quick' else 32
  r = rng.random()
  if r < 0.1:
    nthreads = 1
  elif r < 0.75:
    nthreads = rng.randint(2, 4)
  else:
    nthreads = rng.randint(2, max_threads)
  u = seed % 4 if tier == 'quick' else (seed * 7 + index % 4) % 64
  nfn = 18
  # focus: a few groups per run so that requests collide on cache entries
  groups = [[0, 1, 8], [2, 3, 4, 9], [5, 6, 7], [10, 11], [12, 13], [14, 15], [16, 18, 19, 20], [17], [25, 26], [21, 22],
            [23, 24, 25, 26], [20, 16], [27], [27, 16], [28, 29], [28, 29],
            # (more weight on members that share one code object: distinct function objects, one cache entry)
            [2, 3, 4, 9], [0, 8], [5, 6, 7], [2, 3]]
  k = rng.choice([1, 1, 2, 2, 3])
  chosen = rng.sample(groups, k)
  fids = sorted(set(f for g in chosen for f in g))
  n_opt = rng.choice([1, 1, 2, 3])
  optsets = [(rng.random() < 0.6, rng.randrange(len(FEATSETS))) for _ in range(n_opt)]
  if sub == 'faulty' and len(optsets) == 1:
    # what a failed conversion leaves behind must not be served under another option set
    optsets.append((not optsets[0][0], optsets[0][1]))
  threads = []
  for t in range(nthreads):
    nops = rng.randint(1, 6 if nthreads <= 8 else 3)
    ops = []
    for _ in range(nops):
      fid = rng.choice(fids)
      rec, fi = rng.choice(optsets)
      r = rng.random()
      if r < 0.5:
        op = {'op': 'tg', 'fid': fid, 'rec': rec, 'feats': fi,
              'call': rng.choice(XS[:5]) if rng.random() < 0.5 else None}
      elif r < 0.75:
        op = {'op': 'cv', 'fid': fid, 'rec': rec, 'feats': fi, 'ur': rng.random() < 0.7,
              'x': rng.choice(XS), 'disabled': rng.random() < 0.12}
      else:
        op = {'op': 'cc', 'fid': fid, 'rec': rec, 'feats': fi, 'ur': rng.random() < 0.5,
              'icuc': rng.random() < 0.8, 'x': rng.choice(XS),
              'kw': rng.choice(['none', 'none', 'empty', 'named']), 'disabled': rng.random() < 0.12}
      if rng.random() < 0.4:
        op['spell'] = rng.randrange(1, 5)      # the same option value, spelled differently
      ops.append(op)
    threads.append({'ops': ops})
  # "fresh" ops: a new version of function vf is loaded *during* the run into a
  # slot whose previous occupant is dropped first (garbage-collected functions,
  # address reuse of code objects), then requested like any other function
  if rng.random() < 0.45:
    nslots = rng.choice([1, 1, 2])
    vers = [0] * nslots
    slot_inplace = [rng.random() < 0.4 for _ in range(nslots)]
    slot_owner = [rng.randrange(nthreads) for _ in range(nslots)]
    for _ in range(rng.randint(2, 5)):
      slot = rng.randrange(nslots)
      # a file rewritten in place belongs to one thread: a rewrite while another thread still converts the
      # previous content would be "the file changed under the function" (inspect's documented limit)
      t = slot_owner[slot] if slot_inplace[slot] else rng.randrange(nthreads)
      vers[slot] += 1
      rec, fi = rng.choice(optsets)
      op = {'op': 'fresh', 'slot': slot, 'ver': vers[slot], 'rec': rec, 'feats': fi,
            'x': rng.choice(XS[:5]), 'fid': -1, 'twice': rng.random() < 0.6, 'spell': rng.randrange(5),
            'inplace': slot_inplace[slot]}
      ops = threads[t]['ops']
      ops.insert(rng.randrange(len(ops) + 1), op)
  # "bulk" op (rare: it is slow): more live converted functions than any plausible cache bound
  if rng.random() < (0.015 if tier == 'quick' else 0.03):
    t = rng.randrange(nthreads)
    rec, fi = rng.choice(optsets)
    bulk_n = rng.choice([140, 300])
    threads[t]['ops'].insert(rng.randrange(len(threads[t]['ops']) + 1),
                             {'op': 'bulk', 'fid': -1, 'n': bulk_n, 'rec': rec, 'feats': fi})
  # "mutate" ops: edit a function in place right after it was requested, then
  # repeat that request (copies of the universe live only in this child)
  if rng.random() < 0.3:
    cands = [(t, j) for t in range(nthreads) for j, o in enumerate(threads[t]['ops'])
             if o['op'] in ('tg', 'cv', 'cc') and o['fid'] in (0, 1, 5, 6, 7, 8, 16)]
    if cands:
      t, j = rng.choice(cands)
      o = threads[t]['ops'][j]
      then = {k: v for k, v in o.items() if k != 'disabled'}
      if then['op'] == 'tg':
        then['x'] = o.get('call') if o.get('call') is not None else rng.choice(XS[:5])
      what = rng.choice(['defaults', 'kwdefaults']) if o['fid'] in (5, 6, 7) else 'code'
      threads[t]['ops'].insert(j + 1, {'op': 'mutate', 'fid': o['fid'], 'what': what, 'then': then})
  events = []
  droppable = [f for f in fids if f in (0, 1, 3, 4, 6, 7, 8, 9, 10, 13, 22)]
  nev = rng.choice([0, 1, 1, 2, 3]) if nthreads > 1 or rng.random() < 0.5 else 0
  for _ in range(nev):
    t = rng.randrange(nthreads)
    r = rng.random()
    if droppable and r < 0.6:
      ev = {'ev': 'drop', 'fid': rng.choice(droppable)}
    elif r < 0.8:
      ev = {'ev': 'gc'}
    else:
      ev = {'ev': 'touch', 'mod': rng.choice(['a', 'b', 'v1', 'v2'])}
    ev['thread'] = t
    if rng.random() < 0.6:
      ev['hk'] = rng.randint(1, 120)
    else:
      ev['k'] = rng.randint(1, 2500)
    events.append(ev)
  plan = {'prop': 'C10', 'universe': u, 'threads': threads, 'events': events, 'faults': [],
          'raw_threads': nthreads > 1 and rng.random() < 0.15,
          'max_steps': 200000 + 4000 * sum(o.get('n', 0) for t in threads for o in t['ops'] if o['op'] == 'bulk'),
          'strategy': _gen_strategy(rng, nthreads), 'opcodes': rng.random() < 0.15,
          'probe_xs': sorted(rng.sample(XS, 3)), 'sub': sub}
  # a user lock ("gate"): some requests are made while holding it, some requested functions take it inside their
  # own effects (every l.append).  Legitimate as long as the system never runs user code while holding its own lock.
  grng = random.Random('C10gate:%s:%s:%s:%s' % (seed, index, tier, sub))
  if nthreads > 1 and grng.random() < 0.4:
    for tp in threads:
      for op in tp['ops']:
        if op['op'] in ('tg', 'cv', 'cc'):
          r = grng.random()
          if r < 0.45:
            op['gate'] = 'use'
          elif r < 0.65:
            op['gate'] = 'hold'
  if nthreads > 1:
    for tp in threads:
      for op in tp['ops']:
        if op['op'] in ('tg', 'cv', 'cc') and grng.random() < 0.08:
          # stall fault inside a request: the thread stops being scheduled at a random step of it
          op['stall'] = [grng.randint(1, 400), grng.choice([150, 600, 2500])]
  if droppable and nthreads > 1 and grng.random() < 0.5:
    # the dropping thread requests the function first (so that a cache entry - and its eviction callback -
    # exists), then drops it while the other threads are busy inserting entries of their own
    tp = threads[grng.randrange(nthreads)]
    # (mostly functions that are the only user of their code object: only then does the entry die with them)
    solo = [f for f in droppable if f in (1, 10, 13, 22)]
    fid = grng.choice(solo if solo and grng.random() < 0.8 else droppable)
    rec, fi = grng.choice(optsets)
    at = grng.randrange(len(tp['ops']) + 1)
    dop = {'op': 'dropop', 'fid': fid}
    if grng.random() < 0.7:
      dop['stall'] = [grng.randint(1, 8), grng.choice([150, 600, 2500])]
    tp['ops'].insert(at, dop)
    tp['ops'].insert(at, {'op': 'tg', 'fid': fid, 'rec': rec, 'feats': fi, 'call': None})
  if sub == 'faulty':
    pts = Z['points']
    nf = rng.choice([1, 1, 2, 3])
    for _ in range(nf):
      t = rng.randrange(nthreads)
      plan['faults'].append({
          'thread': t, 'opidx': rng.randrange(len(threads[t]['ops'])), 'point': rng.choice(pts),
          'nth': rng.choice([1, 1, 1, 2]), 'when': rng.choice(['entry', 'exit']),
          'exc': rng.choice(faults.EXC_MENU)})
    # I/O errors where the I/O is: a share of the faults are OSErrors at the stages that read the source or
    # write/import the generated module (what a full disk, a vanished temp dir or EMFILE produce)
    io_pts = [q for q in pts if q.split(':')[0].endswith(('.loader', '.parser', '.inspect_utils'))
              and q.split(':')[1] in ('load_source', 'load_ast', 'parse_entity', 'getimmediatesource')]
    for f in plan['faults']:
      if io_pts and grng.random() < 0.3:
        f['point'] = grng.choice(io_pts)
        f['exc'] = grng.choice([e for e in faults.EXC_MENU if e.startswith('OSError')])
        f['nth'] = 1
  return plan


# ---------------------------------------------------------------------------
# executing one plan (child-side)
# ---------------------------------------------------------------------------
class GateList(list):
  """The effects list handed to a requested function; every append happens
  under the user's lock."""
  __slots__ = ('gate',)

  def __init__(self, gate):
    list.__init__(self)
    self.gate = gate

  def _append(self, v):
    with self.gate:
      list.append(self, v)

  append = _append     # replaced by malt.do_not_convert(_append) once malt is importable: like list.append,
                       # the effect sink itself is not something to convert


class Run(object):

  def __init__(self, lane, plan, schedule, keep_log, rdir=None):
    import malt
    from malt.impl import api
    from malt.core import converter
    self.malt, self.api, self.converter = malt, api, converter
    self.plan = plan
    self.U = get_universe(lane, plan['universe'])
    self.E = self.U['entries']
    self.violations = []
    self.responses = []
    strat = build_strategy(plan['strategy'], schedule)
    self.sim = sched.Sim(strat, max_steps=plan.get('max_steps', 200000), keep_log=keep_log,
                         raw_threads=bool(plan.get('raw_threads')))
    self.sim.tracer = sched.Tracer(self.sim, opcodes=plan.get('opcodes', False))
    self.inj = faults.Injector() if plan['faults'] else None
    self.inflight = {}       # tid -> op
    self.gate = None
    if any(o.get('gate') for tp in plan['threads'] for o in tp['ops']):
      self.gate = boot.SimLock(True, ('harness-gate', 0))
      if GateList.append is GateList._append:
        w = api.do_not_convert(GateList._append)
        w.__name__ = w.__qualname__ = 'append'
        GateList.append = w
    self.tid_by_ident = {}
    self.events_fired = []
    self.op_meta = {}        # ident -> dict for probes
    self.cache_locks = [l for l in boot.SIM_LOCKS if 'transpiler' in l.site[0]]
    self.slots = {}
    self.bulk_keep = []
    self.touched = []
    self.abstract = set()
    self.n_fresh = 0
    self.rdir = rdir

  def viol(self, rule, msg, sig):
    if len(self.violations) < 20:
      self.violations.append({'rule': rule, 'msg': msg, 'sig': sig})

  # -- events ------------------------------------------------------------------
  def make_event(self, ev):
    def fire(sim, thread):
      busy = [t for t, op in self.inflight.items() if op is not None]
      if ev['ev'] == 'touch':
        # the source file of a pool module gets a new modification time (same content)
        path = self.U['paths'][ev['mod']]
        st_ = os.stat(path)
        os.utime(path, ns=(st_.st_atime_ns, st_.st_mtime_ns + 10_000_000_000))
        self.touched.append((path, st_))
        self.events_fired.append('touch:%s' % ev['mod'])
        sim.probe('event_touch')
      elif ev['ev'] == 'gc':
        gc.collect()
        self.events_fired.append('gc')
        sim.probe('event_gc')
      else:
        e = self.E[ev['fid']]
        if e.fn is None:
          return
        twins_alive = [o for o in self.E if o is not e and o.fn is not None and o.group == e.group]
        inflight_same = [op for op in self.inflight.values()
                         if op is not None and op['fid'] >= 0 and self.E[op['fid']].group == e.group]
        e.fn = None
        e.self_obj = None
        if e.dropper:
          e.dropper()
        self.events_fired.append('drop:%s' % e.name)
        sim.probe('event_drop')
        if inflight_same:
          sim.probe('drop_while_same_group_request_in_flight')
        if twins_alive:
          sim.probe('drop_with_live_twin')
      if busy:
        sim.probe('event_during_request')
      sim._ev(thread.tid, 'V', ev['ev'], ev.get('fid', ev.get('mod', '')))
    return fire

  # -- one op ------------------------------------------------------------------
  def do_fresh(self, tid, i, op):
    """Load a new version of `vf` into a slot (dropping and collecting the
    previous occupant first), request it from the real cache and compare with
    the reference the oracle process computed for that version."""
    sim, malt = self.sim, self.malt
    rec = {'t': tid, 'i': i, 'op': op, 'status': None, 'faulted': False}
    self.responses.append(rec)
    slot, ver = op['slot'], op['ver']
    name = 'simfresh_%d' % slot
    ref = self.refs[('fresh', slot, ver, op['rec'], op['feats'], op['x'])]
    with sched.atomic(sim):
      old = self.slots.pop(slot, None)
      old_id = None
      if old is not None:
        old_id = old['code_id']
        sys.modules.pop(name, None)
        old.clear()
      del old
      # the old function sits in a cycle with its module dict: it is really
      # freed (and its address becomes reusable) only by a collection
      gc.collect()
      mod = _load_fresh(self.rdir, self.U, slot, ver, bool(op.get('inplace')))
      if op.get('inplace'):
        sim.probe('module_rewritten_in_place')
      f = mod.vf
      code_id = id(f.__code__)
      if old_id is not None and code_id == old_id:
        sim.probe('code_object_address_reused')
      self.n_fresh += 1       # (no reference to the code object is kept: its address must be reusable)
      COUNT['active']['code_ids'].of(f.__code__, 1000 + self.n_fresh)
      self.slots[slot] = {'mod': mod, 'code_id': code_id}
      sim.probe('fresh_versions_loaded')
    self.inflight[tid] = {'fid': -1}
    sim.point('op', -1, i)
    g = None
    got = None
    try:
      try:
        g = malt.to_graph(f, recursive=op['rec'],
                          experimental_optional_features=_feats(malt, op['feats'], op.get('spell')))
        rec['status'] = 'fn'
        if op.get('twice'):
          # the same live function under the same options again: a cache hit, no second transformation
          g2 = malt.to_graph(f, recursive=op['rec'],
                             experimental_optional_features=_feats(malt, op['feats'], (op.get('spell') or 0) + 1))
          if g2.__globals__ is not f.__globals__:
            self.viol('R3', 'T%d op%d fresh(slot %d, version %d), second request: served function uses another '
                      'module\'s globals' % (tid, i, slot, ver), 'globals')
          g2 = None
      except Exception as ex:   # noqa: BLE001
        rec['status'] = 'exc'
        rec['exc'] = type(ex).__name__
        rec['msg'] = str(ex)[:200]
      if g is not None:
        got = _traced_call(g, None, op['x'])
    finally:
      self.inflight[tid] = None
    where = 'T%d op%d fresh(slot %d, version %d)' % (tid, i, slot, ver)
    if rec['status'] == 'exc':
      if ref['kind'] != 'exc':
        self.viol('R1', '%s raised %s (%s) but a fresh conversion succeeds' % (where, rec['exc'], rec.get('msg', '')[:100]),
                  'raised-%s' % rec['exc'])
    elif ref['kind'] == 'exc':
      self.viol('R1', '%s returned a function but a fresh conversion raises %s' % (where, ref['exc']), 'should-raise')
    else:
      if g.__globals__ is not f.__globals__:
        self.viol('R3', '%s: served function uses another module\'s globals' % where, 'globals')
      self.compare_call(got, ref['call'], where + ' x=%s' % op['x'])
    sim.note('fresh:%s:%s' % (rec['status'], rec.get('exc') or (got or [''])[0]))
    with sched.atomic(sim):
      f = g = mod = None

  def do_bulk(self, tid, i, op):
    """Convert many distinct live functions, then request the first ones again:
    nothing may be transformed twice however many entries the caches hold."""
    sim, malt = self.sim, self.malt
    rec = {'t': tid, 'i': i, 'op': op, 'status': None, 'faulted': False}
    self.responses.append(rec)
    n = op['n']
    with sched.atomic(sim):
      src = 'K = 1\n\n' + ''.join(
          'def bulk_%d(x, l):\n  if x == %d:\n    l.append(%d)\n  return (%d, x + K)\n\n\n' % (k, k, k, k)
          for k in range(n))
      path = os.path.join(self.rdir, 'bulk', 't%d_%d' % (tid, i), 'simbulk.py')
      common.write_module(path, src)
      mod = common.load_module('simbulk_%d_%d' % (tid, i), path)
      fns = [getattr(mod, 'bulk_%d' % k) for k in range(n)]
      for k, f in enumerate(fns):
        COUNT['active']['code_ids'].of(f.__code__, 5000 + 1000 * tid + 200 * i + k)
      self.bulk_keep.append(fns)        # all of them stay alive
    self.inflight[tid] = {'fid': -1}
    sim.point('op', -1, i)
    feats = _feats(malt, op['feats'])
    try:
      bad = None
      for rnd in (0, 1):
        for f in (fns if rnd == 0 else fns[:4]):
          try:
            g = malt.to_graph(f, recursive=op['rec'], experimental_optional_features=feats)
            if g(7, []) != (int(f.__name__.split('_')[1]), 8):
              bad = bad or ('R2', '%s computes %r' % (f.__name__, g(7, [])))
          except Exception as ex:   # noqa: BLE001
            bad = bad or ('R1', '%s: %s: %s' % (f.__name__, type(ex).__name__, str(ex)[:100]))
      rec['status'] = 'bulk'
    finally:
      self.inflight[tid] = None
    if bad:
      self.viol(bad[0], 'T%d op%d bulk conversion of %d live functions: %s' % (tid, i, n, bad[1]), 'bulk-' + bad[0])
    sim.probe('bulk_conversions', n)
    sim.note('bulk:%d' % n)

  def do_mutate(self, tid, i, op):
    """Edit a function in place (new defaults / keyword-only defaults / code
    object), then request it again under the options of an earlier request and
    compare with the reference computed for the edited definition ("a changed
    function definition is never served stale code")."""
    sim, malt = self.sim, self.malt
    e = self.E[op['fid']]
    rec = {'t': tid, 'i': i, 'op': op, 'status': None, 'faulted': False}
    self.responses.append(rec)
    exp = self.refs.get(('mutate', tid, i))
    with sched.atomic(sim):
      f = e.fn
      busy = [o for t, o in self.inflight.items() if o is not None and t != tid and o.get('fid') == op['fid']]
      if exp is None or f is None or busy or e.self_obj is not None or e.mutated \
          or not _apply_mutation(f, op['what']):
        rec['status'] = 'skipped-mutate'
        return
      e.mutated = True
      e.defaults, e.kwdefaults = f.__defaults__, f.__kwdefaults__
      sim.probe('function_edited_in_place')
    req = op['then']
    self.inflight[tid] = {'fid': op['fid']}
    sim.point('op', op['fid'], i)
    try:
      got = _request(malt, self.api, self.converter, f, req)
      rec['status'] = 'mutated'
    finally:
      self.inflight[tid] = None
    self.compare_call(got, exp, 'T%d op%d %s(%s) after editing its %s in place x=%s'
                      % (tid, i, req['op'], e.name, op['what'], req['x']))
    sim.note('mutate:%s' % (got[0],))
    with sched.atomic(sim):
      f = None

  def do_dropop(self, tid, i, op):
    """The program drops its last reference to a pool function *as an ordinary
    step of this thread*: whatever the caches do on the death of the function
    (weak-reference callbacks) runs here, traced and pre-emptible like any
    other library code - unlike the drop *events*, which are atomic."""
    sim = self.sim
    e = self.E[op['fid']]
    rec = {'t': tid, 'i': i, 'op': op, 'status': 'skipped-dropped', 'faulted': False}
    self.responses.append(rec)
    if e.fn is None:
      return
    sim.point('op', op['fid'], i)
    e.fn = None
    e.self_obj = None
    rec['status'] = 'dropped'
    me = sim.current_thread()
    if op.get('stall') and me is not None:
      # stall fault: the thread is descheduled for a while at the k-th step of whatever the drop triggers
      me.stall_at = me.npoints + op['stall'][0]
      me.stall_len = op['stall'][1]
    try:
      if e.dropper:
        e.dropper()
    finally:
      if me is not None:
        me.stall_at = -1
    self.events_fired.append('dropop:%s' % e.name)
    sim.probe('drop_as_thread_step')
    sim.note('dropped:%s' % e.name)

  def do_op(self, tid, i, op):
    if op['op'] == 'fresh':
      return self.do_fresh(tid, i, op)
    if op['op'] == 'mutate':
      return self.do_mutate(tid, i, op)
    if op['op'] == 'bulk':
      return self.do_bulk(tid, i, op)
    if op['op'] == 'dropop':
      return self.do_dropop(tid, i, op)
    sim = self.sim
    e = self.E[op['fid']]
    f = e.fn
    rec = {'t': tid, 'i': i, 'op': op, 'status': None, 'faulted': False}
    self.responses.append(rec)
    if f is None:
      rec['status'] = 'skipped-dropped'
      return
    if e.mutated:
      rec['status'] = 'skipped-mutated'     # its precomputed references describe the old definition
      return
    self_obj = e.self_obj
    thunk = g = o = None
    ident = _thread.get_ident()
    armed = []
    if self.inj is not None:
      for fp in self.plan['faults']:
        if fp['thread'] == tid and fp['opidx'] == i:
          fl = faults.Fault(fp['point'], fp['nth'], fp['when'], fp['exc'], ident=faults._thread_key())
          if self.inj.arm(fl):
            armed.append(fl)
    gate = op.get('gate')
    held = False
    meta = self.op_meta[ident] = {'blocked': False, 'acquired': False, 'transforms0': COUNT['active']['transforms'],
                                  'others_held': any(l.owner is not None for l in self.cache_locks)}
    self.inflight[tid] = op
    sim.point('op', op['fid'], i)
    me_ = sim.current_thread()
    if op.get('stall') and me_ is not None:
      me_.stall_at = me_.npoints + op['stall'][0]
      me_.stall_len = op['stall'][1]
    try:
      if gate == 'hold':
        self.gate.acquire()
        held = True
      if op['op'] == 'tg':
        try:
          g = self.malt.to_graph(f, recursive=op['rec'],
                                 experimental_optional_features=_feats(self.malt, op['feats'], op.get('spell')))
          rec['status'] = 'fn'
          rec['served'] = g
          rec['env'] = (e.globals, e.defaults, e.kwdefaults, dict(e.cells))
        except Exception as ex:   # noqa: BLE001
          rec['status'] = 'exc'
          rec['exc'] = type(ex).__name__
          rec['msg'] = str(ex)[:200]
        if rec['status'] == 'fn' and op.get('call') is not None:
          l = GateList(self.gate) if gate == 'use' else []
          with common.optrace() as tr:
            if self_obj is None:
              o = common.outcome(g, op['call'], l)
            else:
              o = common.outcome(g, self_obj, op['call'], l)
          rec['call'] = ((o[0], common.jsonable(o[1]), common.jsonable(l)), _norm_trace(tr))
      else:
        thunk = _call_thunk(self.malt, self.api, self.converter, f, op)
        l = GateList(self.gate) if gate == 'use' else []
        with common.optrace() as tr:
          o = common.outcome(thunk, op['x'], l)
        rec['status'] = 'called'
        rec['call'] = ((o[0], common.jsonable(o[1]), common.jsonable(l)), _norm_trace(tr))
    finally:
      if me_ is not None:
        me_.stall_at = -1
      if held:
        self.gate.release()
      self.inflight[tid] = None
      for fl in armed:
        fl.active = False
        if fl.fired:
          rec['faulted'] = True
      # The last strong references to the requested function die here.  Done as
      # one atomic harness step: every cache holding a weak entry for it (the
      # real one and the reference worlds the zygote happens to have built)
      # runs its eviction callback now, so the event log does not depend on
      # how many reference worlds exist.
      with sched.atomic(sim):
        thunk = g = o = f = self_obj = None
    if meta['blocked'] and COUNT['active']['transforms'] == meta['transforms0']:
      pass
    # abstract state (for the evidence): which (code, options) pairs are
    # transformed so far x which threads have a request in flight x who owns the cache lock
    act = COUNT['active']
    if act is not None and len(self.abstract) < 400:
      self.abstract.add(repr((sorted(map(repr, act['done'])), sorted(t for t, o in self.inflight.items() if o),
                              [l.owner.tid if l.owner is not None else None for l in self.cache_locks])))
    if meta['blocked']:
      sim.probe('request_blocked_on_cache_lock')
    if not meta['acquired'] and meta['others_held']:
      sim.probe('fast_path_hit_while_lock_held_by_other')
    sim.note('%s:%s' % (rec['status'], rec.get('exc') or (rec.get('call') or [''])[0]))

  # -- run -----------------------------------------------------------------------
  def execute(self):
    plan, sim = self.plan, self.sim
    reals = common.real_transpilers()
    act = {'real': set(id(t) for t in reals), 'done': {}, 'who': {}, 'by_thread': {},
           'code_ids': self.U['code_ids'].copy(), 'requests': 0, 'transforms': 0,
           'tid_of': lambda ident: self.tid_by_ident.get(ident, -1)}
    COUNT['active'] = act

    def mk(tid, tplan):
      def target():
        self.tid_by_ident[_thread.get_ident()] = tid
        for i, op in enumerate(tplan['ops']):
          self.do_op(tid, i, op)
      return target
    for tid, tplan in enumerate(plan['threads']):
      sim.add_thread('t%d' % tid, mk(tid, tplan))
    for ev in plan['events']:
      if ev['thread'] < len(sim.threads):
        if 'hk' in ev:
          sim.at_hot_point(ev['thread'], ev['hk'], self.make_event(ev))
        else:
          sim.at_point(ev['thread'], ev['k'], self.make_event(ev))

    def on_lock(kind, lock, thread):
      if lock not in self.cache_locks:
        return
      m = self.op_meta.get(thread.ident)
      if kind == 'blocked':
        sim.probe('blocked_on_cache_lock')
        if m is not None:
          m['blocked'] = True
      elif kind == 'acquired' and m is not None:
        m['acquired'] = True
    sim.lock_listeners.append(on_lock)
    if self.inj is not None:
      def on_fire(f):
        if any(l.waiters for l in self.cache_locks):
          sim.probe('fault_fired_while_threads_wait_for_cache_lock')
        if any(l.owner is not None for l in self.cache_locks):
          sim.probe('fault_fired_while_cache_lock_held')
      self.inj.on_fire = on_fire
    outcome = sim.run()
    self.sim_outcome = outcome
    if outcome['status'] == 'ok':
      self.check_responses()
      self.check_counts(act)
      if plan['faults'] or plan.get('sub') == 'faulty':
        self.check_recovery()
      self.check_counts(act)
    COUNT['active'] = None
    self.act = act
    return outcome

  # -- oracle ----------------------------------------------------------------------
  def check_responses(self):
    E = self.E
    for rec in self.responses:
      op = rec['op']
      if op['op'] in ('fresh', 'mutate', 'bulk', 'dropop'):
        continue      # compared at once, inside the run
      e = E[op['fid']]
      if rec['status'] in (None, 'skipped-dropped', 'skipped-mutated'):
        continue
      where = 'T%d op%d %s(%s)' % (rec['t'], rec['i'], op['op'], e.name)
      if op['op'] == 'tg':
        ref = self.refs.get(('tg', e.fid, op['rec'], op['feats']))
        if ref is None:
          self.viol('HARNESS', 'missing reference for %s' % where, 'missing-ref')
          continue
        if rec['faulted']:
          # the injected failure may surface in any form; nothing to compare
          continue
        if rec['status'] == 'exc':
          if ref['kind'] != 'exc':
            self.viol('R1', '%s raised %s (%s) but a fresh conversion succeeds'
                      % (where, rec['exc'], rec.get('msg', '')[:100]), 'raised-%s' % rec['exc'])
          elif ref['exc'] != rec['exc']:
            self.viol('R1', '%s raised %s, fresh conversion raises %s' % (where, rec['exc'], ref['exc']),
                      'exc-type')
          continue
        if ref['kind'] == 'exc':
          self.viol('R1', '%s returned a function but a fresh conversion raises %s' % (where, ref['exc']),
                    'should-raise')
          continue
        self.check_env(rec, e, where)
        if 'call' in rec:
          self.compare_call(rec['call'], ref['calls'].get(str(op['call'])), where + ' in-run call x=%s' % op['call'])
        self.probe_served(rec, e, ref, where)
      else:
        exp = self.refs.get(_ckey(e.fid, op))
        if exp is None:
          continue
        if rec['faulted']:
          # fallback must still compute what the function computes (R7 under faults):
          # compare the outcome only, the operator trace legitimately differs
          if common.jsonable(rec['call'][0]) != common.jsonable(exp[0]):
            self.viol('R7', '%s (conversion fault injected): result %s, expected %s'
                      % (where, rec['call'][0], exp[0]), 'fallback-result')
          continue
        self.compare_call(rec['call'], exp, where + ' x=%s' % op['x'])

  def compare_call(self, got, exp, where):
    if exp is None or got is None:
      return
    got = common.jsonable(got)
    exp = common.jsonable(exp)
    if got[0] != exp[0]:
      self.viol('R2', '%s: result %s, fresh conversion gives %s' % (where, got[0], exp[0]),
                'result-differs')
    elif self.plan['faults']:
      # A conversion failure is legitimately *remembered* (C13): later calls of
      # that callee run unconverted, so whole-trace equality is not promised in
      # fault runs.  What remains promised: the options baked into the served
      # function itself (first scope entry), when both sides ran converted code.
      a, b = _first_scope(got[1]), _first_scope(exp[1])
      if a is not None and b is not None and a != b:
        self.viol('R4', '%s: served function was generated under options %s, fresh conversion under %s'
                  % (where, a, b), 'options-differ')
    elif got[1] != exp[1]:
      self.viol('R4', '%s: operator trace differs from the fresh conversion: %s vs %s'
                % (where, _trace_diff(got[1], exp[1]), ''), 'trace-differs')

  def check_env(self, rec, e, where):
    g = rec['served']
    # the requester's environment as it was when the request was served
    e_globals, e_defaults, e_kwdefaults, e_cells = rec.get('env') or (e.globals, e.defaults, e.kwdefaults, e.cells)
    if g.__globals__ is not e_globals:
      self.viol('R3', '%s: served function uses another module\'s globals' % where, 'globals')
    if g.__defaults__ is not e_defaults and not _same_items(g.__defaults__, e_defaults):
      self.viol('R3', '%s: defaults are not the requester\'s objects' % where, 'defaults')
    if not _same_map(g.__kwdefaults__, e_kwdefaults):
      self.viol('R3', '%s: keyword-only defaults are not the requester\'s objects' % where, 'kwdefaults')
    cells = dict(zip(g.__code__.co_freevars, g.__closure__ or ()))
    for name, cell in e_cells.items():
      if cells.get(name) is not cell:
        self.viol('R3', '%s: closure cell %r is not the requester\'s cell' % (where, name), 'cell')

  def probe_served(self, rec, e, ref, where):
    g = rec['served']
    self_obj = e.self_obj
    if self_obj is None and e.name.endswith('.m'):
      return      # the instance was dropped with the method
    got = _probe_sequence(g, e, self_obj, self.plan['probe_xs'])
    for k in sorted(got):
      self.compare_call(got[k], ref['probes'].get(k), '%s probe %s' % (where, k))

  def check_counts(self, act):
    for key, n in act['done'].items():
      if n > 1 and key[0] is not None:
        self.viol('R5', 'source transformation of (code #%s, %s) ran %d times (threads %s)'
                  % (key[0], key[1], n, act['who'].get(key)), 'transformed-%d-times' % min(n, 3))

  def check_recovery(self):
    """R8: after the last fault nothing is poisoned: every live pool function in
    play converts, under every option set in play, like a fresh conversion."""
    U, E = self.U, self.E
    plan = self.plan
    optsets = sorted(set((op['rec'], op['feats']) for t in plan['threads'] for op in t['ops']
                         if op['op'] == 'tg'))
    fids = sorted(set(op['fid'] for t in plan['threads'] for op in t['ops'] if op['fid'] >= 0))
    if self.inj is not None:
      self.inj.disarm_all()
    for fid in fids:
      e = E[fid]
      if e.fn is None or e.mutated:
        continue
      for rec_, fi in optsets:
        ref = self.refs.get(('tg', fid, rec_, fi))
        if ref is None:
          continue
        where = 'recovery to_graph(%s, rec=%s, feats=%d)' % (e.name, rec_, fi)
        try:
          g = self.malt.to_graph(e.fn, recursive=rec_,
                                 experimental_optional_features=_feats(self.malt, fi))
        except Exception as ex:   # noqa: BLE001
          if ref['kind'] != 'exc':
            self.viol('R8', '%s raised %s: %s' % (where, type(ex).__name__, str(ex)[:100]),
                      'recovery-raised-%s' % type(ex).__name__)
          continue
        if ref['kind'] == 'exc':
          self.viol('R8', '%s returned a function, fresh conversion raises %s' % (where, ref['exc']),
                    'recovery-should-raise')
          continue
        r = {'served': g}
        self.check_env(r, e, where)
        self.probe_served(r, e, ref, where)


def _first_scope(tr):
  for t in tr:
    if isinstance(t, list) and t and t[0] in ('FunctionScope', 'with_function_scope'):
      return t[1]
  return None


def _trace_diff(a, b):
  for i, (x, y) in enumerate(zip(a, b)):
    if x != y:
      return 'position %d: served %s, fresh %s' % (i, x, y)
  return 'length %d vs %d (served tail %s, fresh tail %s)' % (len(a), len(b), a[len(b):][:3], b[len(a):][:3])


def _same_items(a, b):
  if a is None or b is None:
    return a is b
  return len(a) == len(b) and all(x is y for x, y in zip(a, b))


def _same_map(a, b):
  if not a and not b:
    return True
  if a is None or b is None:
    return False
  return set(a) == set(b) and all(a[k] is b[k] for k in a)


def run_job(lane, job, rdir):
  plan = job['plan'] if job.get('mode') == 'explicit' else make_plan(
      job['seed'], job['index'], job['tier'], job['sub'])
  schedule = job.get('schedule') if job.get('mode') == 'explicit' else None
  run = Run(lane, plan, schedule, job.get('keep_log', False), rdir)
  try:
    run.refs = build_refs(lane, plan, rdir)
  except RefError as ex:
    return {'status': 'harness_error', 'detail': 'reference computation failed: %s' % ex, 'plan': plan}
  outcome = run.execute()
  sim = run.sim
  if getattr(run.U['mods']['a']._Trigger, 'fired', False):
    sim.probe('reentrant_conversion_on_same_thread')
  res = {
      'status': 'ok', 'violations': run.violations, 'digest': sim.digest(),
      'steps': sim.steps, 'switches': sim.switches, 'threads': len(plan['threads']),
      'schedule': sim.segments, 'sim_outcome': outcome, 'plan': plan,
      'faults_fired': [list(x[:3]) for x in run.inj.fired_log] if run.inj else [],
      'probes': sim.probes, 'switch_pairs': len(sim.switch_pairs),
      'switch_pair_hashes': sim.switch_pair_hashes(),
      'events_fired': run.events_fired,
      'abstract': sorted('%08x' % (__import__('zlib').crc32(x.encode())) for x in run.abstract),
      'stats': {'requests': len(run.responses),
                'transform_requests': run.act['requests'], 'transforms': run.act['transforms'],
                'responses_fn': sum(1 for r in run.responses if r['status'] == 'fn'),
                'responses_exc': sum(1 for r in run.responses if r['status'] == 'exc'),
                'responses_called': sum(1 for r in run.responses if r['status'] == 'called'),
                'skipped_dropped': sum(1 for r in run.responses if r['status'] == 'skipped-dropped'),
                'faulted_requests': sum(1 for r in run.responses if r['faulted'])},
      'trace': {str(tid): ' '.join('%s(%s)%s' % (r['op']['op'], run.E[r['op']['fid']].name if r['op']['fid'] >= 0
                                                  else ('bulk%d' % r['op']['n'] if r['op']['op'] == 'bulk'
                                                        else 's%dv%d' % (r['op']['slot'], r['op']['ver'])),
                                                  '=' + str(r['status']))
                                   for r in run.responses if r['t'] == tid)[:300]
                for tid in range(len(plan['threads']))},
  }
  if keep := job.get('keep_log'):
    res['log'] = sim.log
  for t in sim.threads:
    if t.exc is not None:
      import traceback
      run.violations.append({'rule': 'HARNESS', 'sig': 'thread-died', 'msg': 'thread %d died: %s' % (
          t.tid, ''.join(traceback.format_exception(type(t.exc), t.exc, t.exc.__traceback__))[-1500:])})
  if outcome['status'] == 'deadlock':
    run.violations.append({'rule': 'R6', 'sig': 'deadlock',
                           'msg': 'deadlock: every unfinished request waits for a lock: %s' % outcome['wait_for']})
  elif outcome['status'] == 'step-cap':
    if plan['strategy'].get('name') == 'serial' and schedule is None:
      # even the serial (trivially fair) schedule does not let every request return
      run.violations.append({'rule': 'R6', 'sig': 'no-progress',
                             'msg': 'a request does not return within %d steps under the serial schedule' % sim.steps})
    else:
      res['status'] = 'inconclusive'
      res['detail'] = outcome
  harness = [v for v in run.violations if v['rule'] == 'HARNESS']
  real = [v for v in run.violations if v['rule'] != 'HARNESS']
  if harness:
    res['status'] = 'harness_error'
    res['detail'] = harness[0]['msg']
  elif real:
    res['status'] = 'violation'
  nt = None
  p = sim.probes
  if len(plan['threads']) >= 2 and (p.get('blocked_on_cache_lock') or p.get('event_during_request')
                                   or p.get('fast_path_hit_while_lock_held_by_other')):
    nt = 'mt:%s' % sim.digest()[:16]
  res['nontrivial'] = nt
  return res


# ---------------------------------------------------------------------------
# minimisation candidates
# ---------------------------------------------------------------------------
def shrink_candidates(plan):
  import copy
  out = []
  nt = len(plan['threads'])
  if nt > 1:
    for i in range(nt):
      p = copy.deepcopy(plan)
      del p['threads'][i]
      p['faults'] = [dict(f, thread=(f['thread'] - (1 if f['thread'] > i else 0)))
                     for f in p['faults'] if f['thread'] != i]
      p['events'] = [dict(e, thread=(e['thread'] - (1 if e['thread'] > i else 0)))
                     for e in p['events'] if e['thread'] != i]
      out.append(('drop-thread-%d' % i, p, {'drop_tid': i}))
  for i, t in enumerate(plan['threads']):
    if len(t['ops']) > 1:
      for j in range(len(t['ops'])):
        p = copy.deepcopy(plan)
        del p['threads'][i]['ops'][j]
        nf = []
        for f in p['faults']:
          if f['thread'] == i:
            if f['opidx'] == j:
              continue
            if f['opidx'] > j:
              f = dict(f, opidx=f['opidx'] - 1)
          nf.append(f)
        p['faults'] = nf
        out.append(('drop-op-%d-%d' % (i, j), p, {}))
  for i in range(len(plan['events'])):
    p = copy.deepcopy(plan)
    del p['events'][i]
    out.append(('drop-event-%d' % i, p, {}))
  for i in range(len(plan['faults'])):
    p = copy.deepcopy(plan)
    del p['faults'][i]
    out.append(('drop-fault-%d' % i, p, {}))
  for i, t in enumerate(plan['threads']):
    for j, op in enumerate(t['ops']):
      if op['op'] == 'tg' and op.get('call') is not None:
        p = copy.deepcopy(plan)
        p['threads'][i]['ops'][j]['call'] = None
        out.append(('no-call-%d-%d' % (i, j), p, {}))
  if any(o.get('stall') for t in plan['threads'] for o in t['ops']):
    p = copy.deepcopy(plan)
    for t in p['threads']:
      for o in t['ops']:
        o.pop('stall', None)
    out.append(('no-stall', p, {}))
  if any(o.get('gate') for t in plan['threads'] for o in t['ops']):
    p = copy.deepcopy(plan)
    for t in p['threads']:
      for o in t['ops']:
        o.pop('gate', None)
    out.append(('no-gate', p, {}))
  if plan.get('opcodes'):
    p = copy.deepcopy(plan)
    p['opcodes'] = False
    out.append(('no-opcodes', p, {}))
  if len(plan.get('probe_xs', [])) > 1:
    for x in plan['probe_xs']:
      p = copy.deepcopy(plan)
      p['probe_xs'] = [y for y in plan['probe_xs'] if y != x]
      out.append(('fewer-probes', p, {}))
  return out
