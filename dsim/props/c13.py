"""C13 - the call wrapper is transparent, obeys the conversion policy and falls
back safely.

Workload: one simulated client issues a history of `converted_call(f, args,
kwargs, options | caller scope)` operations over a pool of callables of every
documented kind (real module files), under each context status, with at most
one injected failure per operation: an exception raised at the entry or exit
of a *discovered* stage of the conversion pipeline, a vanished source file, a
vanished temp dir or a full disk.

Oracle (rules T1..T6, DESIGN.md section 4): direct call of the same target on
a twin pool (results, side-effect log, exception type) + a decision-table
model of the documented conversion policy over the labels the pool generator
assigned + fallback / remembered / strict / recovery rules.
"""
import functools
import linecache
import os
import random
import sys
import types
import _thread

from dsim import common, faults, sched, boot

FEATSETS = [(), ('EQUALITY_OPERATORS',), ('BUILTIN_FUNCTIONS',)]   # LISTS rewrites appends on globals (documented limit)
LISTS_FEATSET = ('LISTS', 'EQUALITY_OPERATORS')                    # ... so only targets marked lists_ok get it (feats index 9)
STATUSES = ('UNSPECIFIED', 'ENABLED', 'DISABLED')

USER_SRC = '''\
import collections
import functools
import unittest

LOG = []


def fn(a, b=2, *args, c=3, **kw):
  LOG.append(('fn', a, b, args, c, sorted(kw.items())))
  if a > 0:
    r = a + b
  else:
    r = a - b
  return ('fn', r, c, len(args), sorted(kw))


lam = lambda a, b=2: ('lam', a + b if a > 0 else a - b)


def make_nested(k):
  def nested(a, b=2):
    LOG.append(('nested', a, b))
    if a > k:
      return ('nested', a - k, b)
    return ('nested', a + k, b)
  return nested


nested = make_nested(5)


class C(object):

  def __init__(self, w=1, *rest, tag='t'):
    LOG.append(('C.__init__', w, rest, tag))
    self.w = w
    self.tag = tag

  def meth(self, a, b=2):
    LOG.append(('C.meth', self.w, a, b))
    if a > 0:
      return ('meth', self.w + a, b)
    return ('meth', self.w - a, b)

  @classmethod
  def cmeth(cls, a, b=2):
    LOG.append(('C.cmeth', cls.__name__, a, b))
    if a > 0:
      return ('cmeth', cls.__name__, a + b)
    return ('cmeth', cls.__name__, a - b)

  @staticmethod
  def smeth(a, b=2):
    LOG.append(('C.smeth', a, b))
    if a > 0:
      return ('smeth', a + b)
    return ('smeth', a - b)

  def __call__(self, a, b=2):
    LOG.append(('C.__call__', self.w, a, b))
    if a > 0:
      return ('call', self.w + a + b)
    return ('call', self.w - a - b)


class CallStatic(object):

  @staticmethod
  def __call__(a, b=2):
    LOG.append(('CallStatic', a, b))
    if a > 0:
      return ('callstatic', a + b)
    return ('callstatic', a - b)


class CallClass(object):

  @classmethod
  def __call__(cls, a, b=2):
    LOG.append(('CallClass', cls.__name__, a, b))
    if a > 0:
      return ('callclass', cls.__name__, a + b)
    return ('callclass', cls.__name__, a - b)


class Meta(type):

  def __call__(cls, a, b=2):
    LOG.append(('Meta.__call__', cls.__name__, a, b))
    if a > 0:
      return ('meta', cls.__name__, a + b)
    return ('meta', cls.__name__, a - b)


class WithMeta(metaclass=Meta):
  pass


class WithMetaAndCall(metaclass=Meta):
  """Calling the class goes through the metaclass; calling an instance through this."""

  def __call__(self, a, b=2):
    LOG.append(('WithMetaAndCall.__call__', a, b))
    return ('instance-call', a, b)


class SubMeta(Meta):
  """Inherits the Python __call__ of its base metaclass."""


class WithSubMeta(metaclass=SubMeta):
  pass


def exc_state_fn(a, b=2):
  # what the target sees of "the exception being handled" is part of its behaviour
  import sys
  et = sys.exc_info()[0]
  name = et.__name__ if et is not None else 'none'
  LOG.append(('exc_state_fn', a, b, name))
  if a > 2:
    raise KeyError(name)
  return ('exc_state', name, a + b)


def _exc_state_impl(tag, a, b=2):
  import sys
  et = sys.exc_info()[0]
  name = et.__name__ if et is not None else 'none'
  LOG.append(('exc_state_impl', tag, a, b, name))
  if a > 2:
    raise KeyError(name)
  return ('exc_state', tag, name, a + b)


class NativeCall(object):
  """A callable object whose __call__ has no Python code of its own."""
  __call__ = functools.partial(_exc_state_impl, 'native-call')


class ShadowedCall(object):
  """An instance attribute named __call__ does not change what obj(...) runs."""

  def __init__(self):
    self.__call__ = lambda a, b=2: ('instance-attribute', a, b)

  def __call__(self, a, b=2):
    LOG.append(('ShadowedCall.__call__', a, b))
    if a > 0:
      return ('class-call', a + b)
    return ('class-call', a - b)


class Slotted(object):
  __slots__ = ('w',)          # no __weakref__: cannot be remembered by a weak cache

  def __init__(self):
    self.w = 4

  def __call__(self, a, b=2):
    LOG.append(('Slotted.__call__', self.w, a, b))
    if a > 0:
      return ('slotted', self.w + a)
    return ('slotted', self.w - a)


class Expr(object):
  """What a symbolic == returns: truthy, but not a bool."""

  def __init__(self, text):
    self.text = text

  def __bool__(self):
    return True


class SymbolicCallable(object):
  """A callable whose == builds an expression object (symbolic / tensor-like)."""

  def __eq__(self, other):
    return Expr('eq')

  def __hash__(self):
    return 17

  def __call__(self, a, b=2):
    LOG.append(('SymbolicCallable.__call__', a, b))
    if a > 0:
      return ('symbolic', a + b)
    return ('symbolic', a - b)


class StrictEqCallable(object):
  """A callable that refuses to be compared with foreign objects."""

  def __eq__(self, other):
    if not isinstance(other, StrictEqCallable):
      raise TypeError('cannot compare')
    return self is other

  def __hash__(self):
    return 23

  def __call__(self, a, b=2):
    LOG.append(('StrictEqCallable.__call__', a, b))
    if a > 0:
      return ('stricteq', a + b)
    return ('stricteq', a - b)


class Tape(list):
  """A user type for which overloads of the builtins are registered."""


def _compile_pseudo():
  import linecache
  src = ("def pseudo_fn(a, b=2):\\n"
         "  LOG.append(('pseudo_fn', a, b))\\n"
         "  if a > 0:\\n"
         "    return ('pseudo', a + b)\\n"
         "  return ('pseudo', a - b)\\n")
  name = '<generated %s pseudo>' % __name__
  ns = {'LOG': LOG}
  exec(compile(src, name, 'exec'), ns)
  linecache.cache[name] = (len(src), None, src.splitlines(True), name)
  global PSEUDO_SOURCES
  PSEUDO_SOURCES = {name: src}
  return ns['pseudo_fn']


pseudo_fn = _compile_pseudo()     # compiled under a pseudo file name, source registered in linecache


class BadRepr(object):
  """repr() of this object (and of its bound methods) fails."""

  def __repr__(self):
    raise RuntimeError('repr is not available')

  def meth(self, a, b=2):
    LOG.append(('BadRepr.meth', a, b))
    r = 0
    for i in range(b):
      r += a
    else:
      r += 1
    return ('badrepr', r)

  def __call__(self, a, b=2):
    LOG.append(('BadRepr.__call__', a, b))
    if a > 0:
      return ('badrepr-call', a + b)
    return ('badrepr-call', a - b)


def local_gen_caller(a, b=2):
  LOG.append(('local_gen_caller', a, b))

  def odd_upto(n):
    i = 0
    while i < n:
      if i % 2:
        yield i
      i += 1

  def chained(n):
    yield from odd_upto(n)
  return ('local_gen', list(odd_upto(a + 6)), list(chained(b + 3)))


def _twice(f):
  def wrapper(*a, **k):
    LOG.append(('twice',))
    return ('twice', f(*a, **k))
  return wrapper


def decorated_local_caller(a, b=2):
  LOG.append(('decorated_local_caller', a, b))

  @_twice
  def inner(x):
    if x > 0:
      return x + b
    return x - b

  class Local(object):
    def __init__(self, v):
      self.v = v

    @property
    def doubled(self):
      if self.v > 0:
        return self.v * 2
      return 0
  return ('decorated_local', inner(a), Local(a).doubled)


def nested_wraps_caller(a, b=2):
  # a nested function whose decorator and default are calls (evaluated in THIS function's scope)
  LOG.append(('nested_wraps_caller', a, b))

  def base(v):
    return v + 1

  @functools.wraps(base)
  def inner(v, k=abs(b)):
    if v > 0:
      return v + k
    return v - k
  return ('nested_wraps', inner(a), inner.__name__)


class Dispenser(object):
  """An attribute read with an effect (a property that hands out tickets).  The
  count lives in the per-operation log, so an operation that legitimately never
  runs the target (strict mode) leaves nothing behind for the next one."""

  @property
  def ticket(self):
    n = 1 + len([e for e in LOG if e[0] == 'ticket'])
    LOG.append(('ticket', n))
    return n


DISPENSER = Dispenser()


def ticket_reader(a, b=2):
  t = DISPENSER.ticket
  if a > 0:
    return ('ticket', t, a + b)
  return ('ticket', t, a - b)


def iter_break(a, b=2):
  # a loop left early over a one-shot iterator that is read again afterwards
  it = iter([1, 2, 3, 4, 5, 6])
  got = ()
  for v in it:
    if v > b:
      break
    got = got + (v,)
  rest = tuple(it)
  LOG.append(('iter_break', a, b, got, rest))
  return ('iter_break', got, rest)


def literal_defaults(a, b=2, step=10):
  LOG.append(('literal_defaults', a, b, step))
  if a > 0:
    return ('literal_defaults', a + step, b)
  return ('literal_defaults', a - step, b)


# the defaults were replaced after the definition: the source text no longer says what they are
literal_defaults.__defaults__ = (5, 77)


class Bag(list):
  """A container: falsy while empty."""

  def describe(self, a, b=2):
    LOG.append(('Bag.describe', len(self), a, b))
    if a > 0:
      return ('bag', len(self), a + b)
    return ('bag', len(self), a - b)


class Quiet(object):

  def __bool__(self):
    return False

  def meth(self, a, b=2):
    LOG.append(('Quiet.meth', a, b))
    if a > 0:
      return ('quiet', a + b)
    return ('quiet', a - b)


def free_method(self, a, b=2):
  LOG.append(('free_method', self.w, a, b))
  if a > 0:
    return ('free', self.w + a + b)
  return ('free', self.w - a - b)


def gen(a, b=2):
  LOG.append(('gen', a, b))
  i = 0
  while i < b:
    yield a + i
    i += 1


def deco(f):
  @functools.wraps(f)
  def wrapper(*a, **k):
    LOG.append(('deco',))
    return f(*a, **k)
  return wrapper


@deco
def decorated(a, b=2):
  LOG.append(('decorated', a, b))
  if a > 0:
    return ('decorated', a + b)
  return ('decorated', a - b)


@functools.lru_cache(maxsize=None)
def cached(a, b=2):
  LOG.append(('cached', a, b))
  if a > 0:
    return ('cached', a + b)
  return ('cached', a - b)


NT = collections.namedtuple('NT', ['x', 'y'])


class NTSub(NT):

  def total(self, k=1):
    LOG.append(('NTSub.total', k))
    if k > 0:
      return ('total', self.x + self.y + k)
    return ('total', 0)


exec("""def execfn(a, b=2):
  LOG.append(('execfn', a, b))
  if a > 0:
    return ('execfn', a + b)
  return ('execfn', a - b)
""")


class TC(unittest.TestCase):

  def runTest(self):
    pass

  def helper_m(self, a, b=2):
    LOG.append(('TC.helper_m', a, b))
    if a > 0:
      return ('tc', a + b)
    return ('tc', a - b)


def forelse(a, b=2):
  LOG.append(('forelse', a, b))
  r = 0
  for i in range(b):
    r += a
  else:
    r += 1
  return ('forelse', r)


def caller(a, b=2):
  LOG.append(('caller', a, b))
  if a > 0:
    return ('caller', fn(a, b), nested(a))
  return ('caller', fn(b, a), nested(b))


def raiser(a, b=2):
  LOG.append(('raiser', a, b))
  if a > 0:
    raise KeyError(a)
  return ('raiser', a)


class PassThrough(Exception):
  """An exception that asks the error-rewriting machinery to leave it alone."""
  ag_pass_through = True


class BaseGreeter(object):

  def __init__(self):
    self.w = 2

  def greet(self, a, b=2):
    LOG.append(('BaseGreeter.greet', a, b))
    return ('base', self.w + a + b)


class DerivedGreeter(BaseGreeter):

  def greet(self, a, b=2):
    # zero-argument super() from inside converted control-flow bodies
    LOG.append(('DerivedGreeter.greet', a, b))
    if a > 0:
      r = super().greet(a, b)
    else:
      r = ('neg', a)
    out = []
    for peer in [DerivedGreeter(), DerivedGreeter()]:
      out.append(super().greet(b))
    return ('derived', r, len(out))


async def async_fn(a, b=2):
  LOG.append(('async_fn', a, b))
  if a > 0:
    return a + b
  return a - b


class AsyncHolder(object):

  async def ameth(self, a, b=2):
    LOG.append(('AsyncHolder.ameth', a, b))
    return a + b


async def async_gen(a, b=2):
  LOG.append(('async_gen', a, b))
  yield a
  yield b


def _log(*entry):
  LOG.append(entry)


import malt as _malt
_log = _malt.experimental.do_not_convert(_log)     # (it appends to a global list: not convertible under LISTS)


def lists_user(a, b=2):
  # safe under Feature.LISTS: only local lists are appended to (logging goes through a call)
  _log('lists_user', a, b)
  acc = []
  acc.append(a)
  if a > 0:
    acc.append(b)
  return ('lists_user', len(acc), acc[0])


def multi_assign(a, b=2):
  # under Feature.LISTS the slices converter rejects the chained assignment below
  _log('multi_assign', a, b)
  x = y = 0
  acc = []
  if a > 0:
    x = a
    acc.append(x)
  return ('multi_assign', x + y, len(acc))


def dup_kw_caller(a, b=2):
  # a call site whose explicit keyword and **mapping overlap at run time: TypeError before the callee runs
  LOG.append(('dup_kw_caller', a, b))
  kw = {'c': a}
  if a > 0:
    kw['b'] = a
  k2 = {'z': 1}
  k3 = {'z': 2} if b > 5 else {'y': 2}
  return ('dup_kw', fn(a, b=b, **kw), fn(a, **k2, **k3))


class Texty(object):

  def text(self, a, b=2):
    LOG.append(('Texty.text', a, b))
    s = \"\"\"first line
      an indented continuation line
    last line\"\"\"
    if a > 0:
      return ('text', s, a)
    return ('text', s, -a)


def kwonly_required(a, b=2, *, k):
  LOG.append(('kwonly_required', a, b, k))
  if a > 0:
    return ('kwonly', a + b, k)
  return ('kwonly', a - b, k)


def twice_caller(a, b=2):
  # calls the same callees twice: what the first call leaves behind matters for the second
  LOG.append(('twice_caller', a, b))
  r1 = fn(a, b)
  r2 = fn(b, a)
  r3 = nested(a)
  r4 = nested(b)
  return ('twice', r1, r2, r3, r4)


def raiser_passthrough(a, b=2):
  LOG.append(('raiser_passthrough', a, b))
  if a > 0:
    raise PassThrough(a)
  return ('raiser_passthrough', a)


nested2 = make_nested(9)     # a second closure of the same code object

STAR_OBJ = C.__new__(C)
STAR_OBJ.w, STAR_OBJ.tag = 6, 'star'
STAR_PART = functools.partial(fn, c=4)


def star_caller(a, b=2):
  LOG.append(('star_caller', a, b))
  xs = [a, b]
  r1 = fn(*xs)
  r2 = STAR_OBJ.meth(*xs)
  r3 = STAR_PART(*xs)
  r4 = STAR_OBJ(*xs)
  kw = {'b': b}
  r5 = nested(a, **kw)
  return ('star', r1, r2, r3, r4, r5)
'''

# a module that lives under an allow-listed / look-alike *name*
NAMED_SRC = '''\
LOG = []


def fn(a, b=2):
  LOG.append(('%(tag)s.fn', a, b))
  if a > 0:
    return ('%(tag)s', a + b)
  return ('%(tag)s', a - b)


class K(object):

  def __init__(self, w=1):
    self.w = w

  def tot(self, a, b=2):
    LOG.append(('%(tag)s.K.tot', self.w, a, b))
    if a > 0:
      return ('%(tag)s.tot', self.w + a + b)
    return ('%(tag)s.tot', self.w - a - b)

  def __call__(self, a, b=2):
    LOG.append(('%(tag)s.K.__call__', self.w, a, b))
    if a > 0:
      return ('%(tag)s.call', self.w + a)
    return ('%(tag)s.call', self.w - a)
'''

SUB_SRC = '''\
LOG = []
Base = None


def build(base):
  class Plain(base):
    pass

  class Over(base):
    def tot(self, a, b=2):
      LOG.append(('Over.tot', self.w, a, b))
      if a > 0:
        return ('over', self.w + a)
      return ('over', self.w - a)
  return Plain, Over
'''

ALLOW_NAMES = ['malt.simpool', 'numpy.simpool', 'collections.simpool', 'tensorflow.simpool']
# an explicit Convert rule nested inside a DoNotConvert package (first match wins)
CONVERT_NAMES = ['tensorflow.python.training.experimental.simpool']
LOOKALIKE_NAMES = ['malty', 'numpy_like', 'reporting', 'copyx']

Z = {}


class Target(object):
  __slots__ = ('name', 'label', 'a', 'b', 'argsets', 'fnname', 'inner', 'remember_exempt',
               'module_rule', 'lazy', 'overload', 'lists_ok', 'fails_under')

  def __init__(self, name, label, a, b, argsets=None, fnname=None, inner=None,
               remember_exempt=False, module_rule=None, lazy=False, overload=None, lists_ok=False,
               fails_under=None):
    self.name = name
    self.label = label
    self.a = a              # object in the real pool (goes through converted_call)
    self.b = b              # twin (called directly)
    self.argsets = argsets or 'ab'
    self.fnname = fnname    # __name__ of the function a conversion would be requested for
    self.inner = inner      # for partials: name of the wrapped target's label source
    self.remember_exempt = remember_exempt
    self.module_rule = module_rule
    self.lazy = lazy
    self.overload = overload
    self.lists_ok = lists_ok        # may be requested with Feature.LISTS (does not append to globals)
    self.fails_under = fails_under  # a feature under which the pipeline rejects this target by itself


ARGSETS = {
    'ab': [((1,), None), ((-1, 5), None), ((2,), {}), ((3,), {'b': 7}), ((), {'a': 1, 'b': 4}),
           ((), None), ((1, 2, 3, 4), None)],
    'fn': [((1,), None), ((-1, 5, 8, 9), None), ((2,), {'c': 4, 'z': 1}), ((3,), {'b': 7}),
           ((), {}), ((1, 2), {'b': 3}),
           # keywords named like parameters the wrapper's own helpers use
           ((1,), {'f': 5, 'args': 6, 'kwargs': 7}), ((1,), {'options': 1, 'caller_fn_scope': 2, 'func': 3}),
           ((1,), {'self': 1, 'entity': 2, 'fn': 3, 'exc': 4, 'update_cache': 5})],
    'b_only': [((), None), ((5,), None), ((), {'b': 7}), ((), {}), ((1, 2, 3), None),
               ((), {'b': 9, 'c': 1}), ((), {'z': 4, 'y': 5})],
    'ctor': [((), None), ((4,), None), ((4, 5, 6), {'tag': 'q'}), ((), {'w': 9}), ((), {'nope': 1})],
    'k': [((), None), ((2,), None), ((), {'k': -1}), ((1, 2), None)],
    'nt': [((1, 2), None), ((), {'x': 1, 'y': 2}), ((1,), None)],
    'self_a': [],     # filled per target (needs an instance as first argument)
    'dec': [((__import__('decimal').Decimal('-1.234'),), None), ((), None)],
    'one': [((1,), None), ((), None)],
    'tape1': [(('@tape',), None), (('@tape',), {})],
    'paths': [(('a', 'b'), None), (('/x', 'y', 'z'), {}), ((1,), None)],
    'kwonly': [((1,), {'k': 5}), ((1,), None), ((1, 2), {}), ((), {'k': 1}), ((-1,), {'k': 0, 'b': 9})],
    'len': [(([1, 2, 3],), None), (((),), {}), ((5,), None), ((), None)],
    'abs': [((-3,), None), ((2.5,), {}), (('x',), None)],
    'max': [((1, 5, 3), None), (([4, 2],), {'key': None}), ((), None), ((3,), {'default': 0})],
    'sorted': [(([3, 1, 2],), None), (([3, 1, 2],), {'reverse': True}), ((1,), None)],
    'range': [((3,), None), ((1, 7, 2), None), (('a',), None)],
    'int': [(('12',), None), (('ff', 16), None), ((), None), (('x',), None)],
    'sqrt': [((16,), None), ((-1,), None), (('a',), None)],
    'upper': [(('abc',), None), ((), None), ((1,), None)],
    'append': [((1,), None), ((), None)],
    'copy': [(([1, [2]],), None), ((), None)],
    'escape': [(('a.b',), None), ((1,), None)],
    # (an invalid keyword is rejected with another exception type by the print
    # overload than by the builtin - C14's subject, deliberately not probed here)
    'print': [(('x', 1), None), (('x',), {'sep': '-'}), ((), None)],
}


def _load_named(lane, base, realname, alias, tag):
  path = os.path.join(base, alias, realname.split('.')[-1] + '.py')
  common.write_module(path, NAMED_SRC % {'tag': tag})
  return common.load_module(realname, path)


def build_pool(lane, which):
  """Builds one copy of the pool.  which='a': real module names (seen by malt);
  which='b': the twin, same sources under private names, only called directly."""
  import malt
  import collections
  import copy
  import math
  import re
  base = os.path.join(lane.scratch, 'zygote', 'c13' + which)
  pre = '' if which == 'a' else 'twinb_'
  upath = os.path.join(base, 'user', 'simc13_user.py')
  common.write_module(upath, USER_SRC)
  U = common.load_module(pre + 'simc13_user', upath)
  named = {}
  for nm in ALLOW_NAMES + LOOKALIKE_NAMES + CONVERT_NAMES:
    real = nm if which == 'a' else (pre + nm.replace('.', '_'))
    named[nm] = _load_named(lane, base, real, nm.replace('.', '_'), nm)
  # a plugin loaded by path and never registered in sys.modules (one more named module, two functions: the
  # second is first seen after the first was called)
  upath2 = os.path.join(base, 'plugin', 'simc13_plugin.py')
  common.write_module(upath2, NAMED_SRC % {'tag': 'plugin'})
  named['@plugin'] = common.load_module(pre + 'simc13_plugin', upath2, register=False)
  spath = os.path.join(base, 'sub', 'simc13_sub.py')
  common.write_module(spath, SUB_SRC)
  S = common.load_module(pre + 'simc13_sub', spath)
  Plain, Over = S.build(named['numpy.simpool'].K)
  logs = [U.LOG, S.LOG] + [m.LOG for m in named.values()]
  P = {'U': U, 'named': named, 'S': S, 'logs': logs, 'files': [upath]}
  T = {}

  def add(name, label, obj, **kw):
    T[name] = (label, obj, kw)

  c1 = U.C.__new__(U.C)
  c1.w, c1.tag = 3, 'c1'
  add('fn', 'function', U.fn, argsets='fn', fnname='fn')
  add('lam', 'lambda', U.lam, fnname='<lambda>')
  add('nested', 'function', U.nested, fnname='nested')
  add('bound', 'function', c1.meth, fnname='meth')
  add('unbound', 'function', U.C.meth, argsets='self_a', fnname='meth', self_obj=c1)
  add('cmeth', 'function', U.C.cmeth, fnname='cmeth')
  add('cmeth_inst', 'function', c1.cmeth, fnname='cmeth')
  add('smeth', 'function', U.C.smeth, fnname='smeth')
  add('callable', 'callable_obj', c1, fnname='__call__')
  add('callstatic', 'callable_static', U.CallStatic(), fnname='__call__')
  add('callclass', 'callable_class', U.CallClass(), fnname='__call__')
  add('metaclass_call', 'callable_obj', U.WithMeta, fnname='__call__')
  add('slotted_callable', 'callable_obj', U.Slotted(), fnname='__call__')
  add('metaclass_call2', 'callable_obj', U.WithMetaAndCall, fnname='__call__')
  add('shadowed_call', 'callable_obj', U.ShadowedCall(), fnname='__call__')
  add('metaclass_call_inherited', 'callable_obj', U.WithSubMeta, fnname='__call__')
  add('nested_wraps_caller', 'function', U.nested_wraps_caller, fnname='nested_wraps_caller')
  add('ticket_reader', 'function', U.ticket_reader, fnname='ticket_reader')
  add('iter_break', 'function', U.iter_break, fnname='iter_break')
  add('literal_defaults', 'function', U.literal_defaults, fnname='literal_defaults')
  add('exc_state_fn', 'function', U.exc_state_fn, fnname='exc_state_fn')
  add('native_call_obj', 'native', U.NativeCall())
  import operator
  add('methodcaller', 'native', operator.methodcaller('meth', 2), argsets='self_only', self_obj=c1)
  add('manual_bound', 'function', types.MethodType(U.free_method, c1), fnname='free_method')
  add('symbolic_eq_callable', 'callable_obj', U.SymbolicCallable(), fnname='__call__')
  add('strict_eq_callable', 'callable_obj', U.StrictEqCallable(), fnname='__call__')
  add('pseudo_file_fn', 'function', U.pseudo_fn, fnname='pseudo_fn')
  # builtins called on a user type with registered overloads: the overload must be dispatched on EVERY call
  add('len_tape', 'builtin_overloaded', len, argsets='tape1', overload='len')
  add('sorted_tape', 'builtin_overloaded', sorted, argsets='tape1', overload='sorted')
  add('enumerate_tape', 'builtin_overloaded', enumerate, argsets='tape1', overload='enumerate', lazy=True)
  add('badrepr_method', 'unsupported', U.BadRepr().meth, fnname='meth')      # for/else: natural failure
  add('badrepr_callable', 'callable_obj', U.BadRepr(), fnname='__call__')
  add('local_gen_caller', 'unsupported', U.local_gen_caller, fnname='local_gen_caller')   # local generators: rejected
  add('decorated_local_caller', 'function', U.decorated_local_caller, fnname='decorated_local_caller')
  add('falsy_bag_method', 'function', U.Bag().describe, fnname='describe')
  add('falsy_obj_method', 'function', U.Quiet().meth, fnname='meth')
  add('class', 'constructor', U.C, argsets='ctor')
  add('nt_class', 'constructor', U.NT, argsets='nt')
  add('ntsub_class', 'constructor', U.NTSub, argsets='nt')
  add('nt_method', 'function', U.NTSub(1, 2).total, argsets='k', fnname='total')
  add('gen', 'generator', U.gen, fnname='gen')
  add('decorated', 'function', U.decorated, fnname='wrapper')
  add('cached', 'lru_cache', U.cached)
  add('execfn', 'exec', U.execfn)
  add('tc_method', 'testcase_method', U.TC().helper_m, fnname='helper_m')
  add('forelse', 'unsupported', U.forelse, fnname='forelse')
  add('caller', 'function', U.caller, fnname='caller')
  add('raiser', 'function', U.raiser, fnname='raiser')
  add('raiser_passthrough', 'function', U.raiser_passthrough, fnname='raiser_passthrough')
  add('kwonly_required', 'function', U.kwonly_required, argsets='kwonly', fnname='kwonly_required')
  add('dup_kw_caller', 'function', U.dup_kw_caller, fnname='dup_kw_caller')
  add('multiline_string_method', 'function', U.Texty().text, fnname='text')
  import posixpath
  add('posixpath_join', 'allowlisted_module', posixpath.join, argsets='paths', fnname='join', module_rule='posixpath')
  add('super_in_branch', 'function', U.DerivedGreeter().greet, fnname='greet')
  add('async_fn', 'coroutine', U.async_fn)
  add('async_method', 'coroutine', U.AsyncHolder().ameth)
  add('async_gen', 'coroutine', U.async_gen)
  add('lists_user', 'function', U.lists_user, fnname='lists_user', lists_ok=True)
  add('multi_assign', 'function', U.multi_assign, fnname='multi_assign', lists_ok=True, fails_under='LISTS')
  add('twice_caller', 'function', U.twice_caller, fnname='twice_caller')
  add('nested2', 'function', U.nested2, fnname='nested')
  add('star_caller', 'function', U.star_caller, fnname='star_caller')
  # partials
  add('partial1', 'partial', functools.partial(U.fn, 1), argsets='b_only', inner='function', fnname='fn')
  add('partial_nested', 'partial',
      functools.partial(functools.partial(U.fn, 1, c=5, z=0), b=7, c=6), argsets='b_only',
      inner='function', fnname='fn')
  # chains that functools does NOT flatten (inner partial carries attributes / is a subclass):
  # the call wrapper has to unwrap them link by link
  inner = functools.partial(U.fn, 1, c=5, z=0)
  functools.update_wrapper(inner, U.fn)
  add('partial_chain', 'partial', functools.partial(inner, b=7, c=6), argsets='b_only',
      inner='function', fnname='fn')
  inner3 = functools.partial(functools.partial(inner, c=8, y=1), b=2, z=3)
  functools.update_wrapper(inner3.func, U.fn)
  add('partial_chain3', 'partial', inner3, argsets='b_only', inner='function', fnname='fn')

  class SubPartial(functools.partial):
    pass
  add('partial_subclass', 'partial', functools.partial(SubPartial(c1.meth, b=9), 4), argsets='b_only',
      inner='function', fnname='meth')
  add('partial_method', 'partial', functools.partial(c1.meth, 1), argsets='b_only',
      inner='function', fnname='meth')
  add('partial_builtin', 'partial', functools.partial(max, 3), argsets='max', inner='builtin')
  add('partial_class', 'partial', functools.partial(U.C, 8), argsets='ctor', inner='constructor')
  add('partial_dnc', 'partial', functools.partial(malt.experimental.do_not_convert(U.fn), 2),
      argsets='b_only', inner='artifact')
  # artifacts
  add('art_to_graph', 'artifact', malt.to_graph(U.nested) if which == 'a' else U.nested)
  add('art_dnc', 'artifact', malt.experimental.do_not_convert(U.fn) if which == 'a' else U.fn, argsets='fn')
  add('art_convert', 'artifact', malt.convert(recursive=True)(U.C.smeth) if which == 'a' else U.C.smeth)
  # builtins / native
  add('len', 'builtin', len, argsets='len')
  add('abs', 'builtin', abs, argsets='abs')
  add('max', 'builtin', max, argsets='max')
  add('sorted', 'builtin', sorted, argsets='sorted')
  add('range', 'builtin', range, argsets='range', lazy=True)
  add('int', 'builtin', int, argsets='int')
  add('print', 'partial', functools.partial(print, file=common_sink()), argsets='print', inner='builtin')
  add('sqrt', 'builtin', math.sqrt, argsets='sqrt')
  add('str_upper', 'native', str.upper, argsets='upper')
  import decimal
  add('ctx_abs', 'builtin', decimal.Context(prec=2).abs, argsets='dec')        # C method *named* abs
  add('deque_count', 'builtin', collections.deque([1, 2, 1]).count, argsets='one')
  add('op_abs', 'builtin', __import__('operator').abs, argsets='abs')
  add('list_append', 'builtin', [].append, argsets='append')
  # stdlib allow-list by value
  add('copy_copy', 'stdlib', copy.copy, argsets='copy')
  add('re_escape', 'stdlib', re.escape, argsets='escape')
  # modules allow-listed by name / look-alikes
  for nm in ALLOW_NAMES:
    add('mod:%s' % nm, 'allowlisted_module', named[nm].fn, fnname='fn', module_rule=nm)
  for nm in LOOKALIKE_NAMES + CONVERT_NAMES:
    add('mod:%s' % nm, 'function', named[nm].fn, fnname='fn')
  add('unregistered_mod_fn', 'function', named['@plugin'].fn, fnname='fn')
  add('unregistered_mod_method', 'function', named['@plugin'].K(2).tot, fnname='tot')
  k_np = named['numpy.simpool'].K(2)
  add('np_method', 'allowlisted_module', k_np.tot, fnname='tot', module_rule='numpy.simpool')
  add('np_callable', 'allowlisted_module', k_np, fnname='__call__', module_rule='numpy.simpool')
  add('np_sub_inherited', 'allowlisted_module', Plain(4).tot, fnname='tot', module_rule='numpy.simpool')
  add('np_sub_overridden', 'function', Over(4).tot, fnname='tot')
  P['targets'] = T
  return P


_SINK = []


def common_sink():
  if not _SINK:
    class _S(object):
      def write(self, s):
        pass

      def flush(self):
        pass
    _SINK.append(_S())
  return _SINK[0]


def init_zygote(lane):
  import malt
  from malt.impl import api
  # fake wrapt so that the wrapt rule can be exercised without the package
  if 'wrapt' not in sys.modules:
    w = types.ModuleType('wrapt')

    class FunctionWrapper(object):
      def __init__(self, wrapped):
        self.__wrapped__ = wrapped

      def __call__(self, *a, **k):
        return self.__wrapped__(*a, **k)

    class BoundFunctionWrapper(FunctionWrapper):
      pass
    w.FunctionWrapper = FunctionWrapper
    w.BoundFunctionWrapper = BoundFunctionWrapper
    sys.modules['wrapt'] = w
  with common.World():
    A = build_pool(lane, 'a')
  B = build_pool(lane, 'b')
  wr = sys.modules['wrapt']
  A['targets']['wrapt'] = ('wrapt', wr.FunctionWrapper(A['U'].fn), {'argsets': 'fn', 'fnname': '__call__'})
  B['targets']['wrapt'] = ('wrapt', wr.FunctionWrapper(B['U'].fn), {'argsets': 'fn', 'fnname': '__call__'})
  targets = {}
  for name, (label, obj, kw) in A['targets'].items():
    kw = dict(kw)
    self_a = kw.pop('self_obj', None)
    lb, objb, kwb = B['targets'][name]
    self_b = kwb.get('self_obj')
    t = Target(name, label, obj, objb, **kw)
    if t.argsets == 'self_only':
      t.argsets = [(('@self',), None)]
    if t.argsets == 'self_a':
      t.argsets = [(('@self', 1), None), (('@self', -1, 5), None), (('@self',), {'a': 2}), ((), None)]
      t.remember_exempt = False
    import weakref
    key_obj = obj
    while isinstance(key_obj, functools.partial):
      key_obj = key_obj.func
    key_obj = getattr(key_obj, '__func__', key_obj)
    try:
      weakref.ref(key_obj)
    except TypeError:
      t.remember_exempt = True      # documented: such entities cannot be remembered
    targets[name] = t
    t_self = (self_a, self_b)
    if self_a is not None:
      Z.setdefault('selfs', {})[name] = t_self
  from malt.operators import py_builtins
  hits = Z['overload_hits'] = {}

  def mk(name, real):
    def overload(*a, **k):
      # (the operators hand their overloads operator-specific extra arguments)
      hits[name] = hits.get(name, 0) + 1
      return real(a[0])
    return overload
  for nm, real in (('len', len), ('sorted', sorted), ('enumerate', enumerate)):
    reg = getattr(py_builtins, nm + '_registry', None)
    if reg is not None:
      reg.register(A['U'].Tape, mk(nm, real))
  Z['targets'] = targets
  Z['exempt_ids'] = set(_rem_id(t.a) for t in targets.values() if t.remember_exempt)
  Z['A'], Z['B'] = A, B
  feats = tuple(getattr(malt.experimental.Feature, f) for f in ('BUILTIN_FUNCTIONS', 'LISTS', 'EQUALITY_OPERATORS'))
  with common.World():
    pts = faults.discover(
        lambda: malt.to_graph(A['U'].fn, recursive=True, experimental_optional_features=feats),
        boot.REPO_ROOT)
  Z['points'] = faults.usable_points(pts)
  _install_observers()


# ---------------------------------------------------------------------------
# observers: which conversions were requested, which fallbacks happened
# ---------------------------------------------------------------------------
OBS = {'requests': [], 'fallbacks': [], 'events': [], 'on': False}


def _install_observers():
  from malt.pyct import transpiler
  klass = transpiler.PyToPy
  orig = vars(klass)['transform_function']

  def transform_function(self, fn, user_context):
    if OBS['on']:
      code = getattr(getattr(fn, '__func__', fn), '__code__', None)
      OBS['requests'].append(code.co_name if code is not None else '?')
      OBS['events'].append(('req', _rem_id(fn), common._opts_tuple(getattr(user_context, 'options', None)),
                            code.co_name if code is not None else '?', _rem_obj(fn)))
    return orig(self, fn, user_context)
  transform_function.__wrapped_stage__ = orig
  klass.transform_function = transform_function
  from malt.impl import api
  fb = api._fall_back_unconverted

  def _fall_back_unconverted(f, args, kwargs, options, exc):
    if OBS['on']:
      OBS['fallbacks'].append((_rem_id(f), common._opts_tuple(options), type(exc).__name__))
      if hasattr(getattr(f, '__func__', f), '__code__'):
        OBS['events'].append(('fb', _rem_id(f), common._opts_tuple(options), type(exc).__name__, _rem_obj(f)))
    return fb(f, args, kwargs, options, exc)
  _fall_back_unconverted.__wrapped_stage__ = fb
  api._fall_back_unconverted = _fall_back_unconverted


def _rem_obj(f):
  """The object whose identity (and lifetime!) the remembered verdict is tied to."""
  while isinstance(f, functools.partial):
    f = f.func
  return getattr(f, '__func__', f)


def _rem_id(f):
  """Identity under which the call wrapper remembers an entity (documented on
  the cache: methods are remembered by their function)."""
  while isinstance(f, functools.partial):
    f = f.func
  return id(getattr(f, '__func__', f))


# ---------------------------------------------------------------------------
# the decision-table model (T2)
# ---------------------------------------------------------------------------
def model_converts(t, opts, status, remembered):
  """True: a conversion of the target's function must be requested; False: it
  must not; None: the documents leave it open."""
  label = t.label
  if label == 'partial':
    label = t.inner
  if remembered:
    return False
  if status == 'DISABLED':
    return False
  if label in ('artifact', 'builtin', 'builtin_overloaded', 'native', 'constructor', 'lru_cache', 'wrapt',
               'stdlib', 'exec'):
    return False
  if label in ('callable_static', 'callable_class', 'coroutine'):
    return None
  if label == 'allowlisted_module':
    if not opts['ur']:
      return False
    # user_requested "ignores the allowlist" (ConversionOptions docs) - but only
    # a *function* explicitly requested; methods/callables of allow-listed
    # modules under user_requested are left open
    return None if t.fnname != 'fn' else (True if opts['icuc'] else False)
  if label == 'namedtuple_method':
    return None
  if label in ('generator', 'testcase_method'):
    if not opts['ur']:
      return False
    return None
  if not opts['icuc']:
    return False
  if label in ('function', 'lambda', 'callable_obj', 'unsupported'):
    return True
  return None


# ---------------------------------------------------------------------------
# plan generation
# ---------------------------------------------------------------------------
def _gen_opts(rng):
  return {'rec': rng.random() < 0.6, 'ur': rng.random() < 0.4, 'icuc': rng.random() < 0.85,
          'feats': rng.randrange(len(FEATSETS))}


def _gen_fault(rng, tier):
  r = rng.random()
  if r < 0.8:
    exc = rng.choice(faults.EXC_QUICK if tier == 'quick' and rng.random() < 0.6 else faults.EXC_MENU)
    f = {'kind': 'stage-exc', 'point': rng.choice(Z['points']), 'nth': rng.choice([1, 1, 1, 2, 3]),
         'when': rng.choice(['entry', 'exit']), 'exc': exc}
    if rng.random() < 0.25:
      f['conv_k'] = rng.choice([2, 2, 3])     # a callee's conversion, nested in a converted caller
      f['nth'] = 1
    return f
  if r < 0.87:
    return {'kind': 'src-gone'}
  if r < 0.94:
    return {'kind': 'tmp-gone'}
  return {'kind': 'disk-full', 'budget': rng.choice([0, 10, 200, 1000])}


SWEEP_EXC = ['ValueError', 'KeyError', 'OSError:ENOSPC', 'AssertionError', 'AttributeError', 'MemoryError']

RELATED = {
    'class': ['callable', 'bound', 'cmeth_inst', 'unbound'], 'partial_class': ['callable', 'class'],
    'callable': ['class'], 'nt_class': ['nt_method'], 'ntsub_class': ['nt_method'],
    'metaclass_call': ['metaclass_call2'], 'partial1': ['fn'], 'partial_method': ['bound', 'unbound'],
    'art_dnc': ['fn'], 'art_convert': ['smeth'], 'art_to_graph': ['nested', 'nested2'],
    'bound': ['unbound', 'partial_method'], 'cmeth': ['cmeth_inst'], 'np_method': ['np_sub_overridden', 'np_sub_inherited'],
    'mod:numpy.simpool': ['mod:numpy_like'], 'mod:malt.simpool': ['mod:malty'], 'tc_method': ['bound'],
    'mod:tensorflow.simpool': ['mod:tensorflow.python.training.experimental.simpool'],
    'mod:tensorflow.python.training.experimental.simpool': ['mod:tensorflow.simpool'],
    'cached': ['fn'], 'gen': ['fn'], 'len': ['len_tape'], 'posixpath_join': ['fn', 'nested', 'lam', 'smeth'],
    'fn': ['posixpath_join'],
}

CONVERTIBLE = ['nested_wraps_caller', 'ticket_reader', 'iter_break', 'literal_defaults', 'exc_state_fn', 'exc_state_fn', 'metaclass_call_inherited', 'unregistered_mod_fn', 'caller', 'caller', 'dup_kw_caller', 'multiline_string_method', 'lists_user', 'multi_assign', 'multi_assign', 'super_in_branch', 'twice_caller', 'twice_caller', 'kwonly_required', 'symbolic_eq_callable', 'strict_eq_callable', 'pseudo_file_fn', 'badrepr_method', 'badrepr_callable', 'local_gen_caller', 'decorated_local_caller', 'metaclass_call2', 'shadowed_call', 'fn', 'star_caller', 'nested2', 'raiser_passthrough', 'raiser', 'falsy_bag_method', 'falsy_obj_method', 'nt_method', 'metaclass_call', 'slotted_callable', 'manual_bound', 'fn', 'lam', 'nested', 'bound', 'unbound', 'cmeth', 'cmeth_inst', 'smeth', 'callable',
               'decorated', 'caller', 'raiser', 'partial1', 'partial_nested', 'partial_method',
               'partial_chain', 'partial_chain3', 'partial_subclass',
               'mod:malty', 'mod:numpy_like', 'mod:reporting', 'mod:copyx', 'np_sub_overridden',
               'forelse']


def make_plan(seed, index, tier, sub):
  rng = random.Random('C13:%s:%s:%s:%s' % (seed, index, tier, sub))
  names = sorted(Z['targets'])
  ops = []
  nops = rng.randint(10, 24) if tier == 'quick' else rng.randint(10, 40)
  if sub == 'clean':
    # systematic sweep of the decision table: the run index picks the slice
    start = (index * 7) % len(names)
    for k in range(nops):
      name = names[(start + k) % len(names)] if k % 3 else rng.choice(names)
      t = Z['targets'][name]
      aset = ARGSETS[t.argsets] if isinstance(t.argsets, str) else t.argsets
      ops.append({'target': name, 'args': rng.randrange(len(aset)), 'opts': _gen_opts(rng),
                  'status': rng.choice(STATUSES) if rng.random() < 0.6 else 'UNSPECIFIED',
                  'via_scope': rng.random() < 0.3, 'strict': False, 'fault': None})
      rel = RELATED.get(name)
      if rel and rng.random() < 0.5:
        # a related entity (class <-> instance, partial <-> target, bound <-> unbound ...) under the SAME
        # options: a verdict recorded for one must not be applied to the other
        n2 = rng.choice(rel)
        t2 = Z['targets'][n2]
        aset2 = ARGSETS[t2.argsets] if isinstance(t2.argsets, str) else t2.argsets
        ops.append({'target': n2, 'args': rng.randrange(len(aset2)), 'opts': dict(ops[-1]['opts']),
                    'status': rng.choice(STATUSES[:2]), 'via_scope': False, 'strict': False, 'fault': None})
      if rng.random() < 0.5:
        # the same target again, under options differing in one or two fields
        # and another status: what was decided or remembered for one option
        # set must not leak into another
        o2 = dict(ops[-1]['opts'])
        for fld in rng.sample(['rec', 'ur', 'icuc', 'feats'], rng.choice([1, 1, 2])):
          o2[fld] = (not o2[fld]) if fld != 'feats' else (o2[fld] + 1) % len(FEATSETS)
        ops.append({'target': name, 'args': rng.randrange(len(aset)), 'opts': o2,
                    'status': rng.choice(STATUSES[:2]), 'via_scope': False, 'strict': False, 'fault': None})
  else:
    # fault histories: a few focus targets so that remembered/recovery rules get exercised
    focus = rng.sample(CONVERTIBLE, rng.choice([1, 2, 3]))
    optpool = [_gen_opts(rng) for _ in range(rng.choice([1, 2, 2, 3]))]
    for o in optpool:
      o['icuc'] = True
    pts = Z['points']
    for k in range(nops):
      name = rng.choice(focus) if rng.random() < 0.85 else rng.choice(names)
      t = Z['targets'][name]
      aset = ARGSETS[t.argsets] if isinstance(t.argsets, str) else t.argsets
      op = {'target': name, 'args': rng.randrange(len(aset)), 'opts': dict(rng.choice(optpool)),
            'status': 'DISABLED' if rng.random() < 0.08 else rng.choice(STATUSES[:2]),
            'via_scope': rng.random() < 0.3, 'strict': rng.random() < 0.12, 'fault': None}
      if rng.random() < 0.3:
        op['fault'] = _gen_fault(rng, tier)
        if tier == 'quick' and op['fault']['kind'] == 'stage-exc' and rng.random() < 0.7:
          # enumerate: run index x op index walks the discovered points and both edges
          j = (index * 24 + k)
          op['fault']['point'] = pts[j % len(pts)]
          op['fault']['when'] = 'entry' if (j // len(pts)) % 2 == 0 else 'exit'
          op['fault']['nth'] = 1
      ops.append(op)
  if sub != 'clean' and index % 6 == 5:
    # sweep: every injection point x edge x exception kind against a target that raises at run time, each
    # request under its own option set (nothing remembered in between): what a failed or degraded stage
    # leaves behind must not change what the caller sees of the target's own exception
    pts = Z['points']
    ops = []
    for k in range(nops):
      j = (index // 6) * 40 + k
      name = ('raiser', 'raiser_passthrough')[k % 2]
      op = {'target': name, 'args': rng.choice([0, 2, 3, 3, 1]),
            'opts': {'rec': bool(k & 2), 'ur': bool(k & 4), 'icuc': True, 'feats': (k // 8) % len(FEATSETS)},
            'status': rng.choice(STATUSES[:2]), 'via_scope': False, 'strict': False,
            'fault': {'kind': 'stage-exc', 'point': pts[j % len(pts)], 'nth': 1,
                      'when': 'entry' if (j // len(pts)) % 2 == 0 else 'exit',
                      'exc': SWEEP_EXC[(j // (2 * len(pts))) % len(SWEEP_EXC)]}}
      ops.append(op)
  for op in ops:
    if Z['targets'][op['target']].lists_ok and rng.random() < 0.5:
      op['opts']['feats'] = 9          # Feature.LISTS, only for targets that do not append to globals
  # the optional `wrapt` package is imported lazily by many programs: in some histories it only
  # appears in sys.modules after the first calls (wrapt targets are used only afterwards)
  wrapt_at = rng.randrange(2, max(3, len(ops) // 2)) if rng.random() < 0.35 else 0
  if wrapt_at:
    for k in (wrapt_at, min(wrapt_at + 2, len(ops))):
      ops.insert(k, {'target': 'wrapt', 'args': rng.randrange(5), 'opts': _gen_opts(rng),
                     'status': 'UNSPECIFIED', 'via_scope': False, 'strict': False, 'fault': None})
  return {'prop': 'C13', 'ops': ops, 'strategy': {'name': 'serial'}, 'faults': [], 'wrapt_at': wrapt_at}


# ---------------------------------------------------------------------------
# execution
# ---------------------------------------------------------------------------
def _norm(v, depth=0):
  """Comparable rendering of results: instances by type name and __dict__,
  lazy results by their items."""
  if depth > 4:
    return '...'
  if isinstance(v, (int, float, str, bool, bytes)) or v is None:
    return v
  if isinstance(v, (list, tuple)):
    r = [_norm(x, depth + 1) for x in v]
    if isinstance(v, tuple) and hasattr(v, '_fields'):
      return ['nt:' + type(v).__name__] + r
    return r
  if isinstance(v, dict):
    return {str(k): _norm(x, depth + 1) for k, x in sorted(v.items(), key=lambda kv: str(kv[0]))}
  if type(v).__name__ == 'Decimal':
    return 'Decimal:' + str(v)
  if isinstance(v, range):
    return ['range'] + list(v)[:20]
  if isinstance(v, types.CoroutineType):
    v.close()
    return 'coroutine:' + v.__name__
  if isinstance(v, types.AsyncGeneratorType):
    return 'async_generator:' + v.__name__
  if isinstance(v, types.GeneratorType):
    return ['gen'] + [_norm(x, depth + 1) for x in v]
  if hasattr(v, '__dict__') and not isinstance(v, (type, types.FunctionType, types.ModuleType)):
    return ['obj:' + type(v).__name__, _norm(vars(v), depth + 1)]
  return 'other:' + type(v).__name__


def _drain_logs(P):
  out = []
  for lg in P['logs']:
    out.extend(common.jsonable(list(lg)))
    del lg[:]
  return out


class Run(object):

  def __init__(self, lane, plan, rdir, keep_log):
    import malt
    from malt.impl import api, conversion
    from malt.core import converter, ag_ctx
    from malt.operators import function_wrappers
    self.malt, self.api, self.conversion = malt, api, conversion
    self.converter, self.ag_ctx, self.fw = converter, ag_ctx, function_wrappers
    self.plan = plan
    self.rdir = rdir
    self.lane = lane
    self.violations = []
    self.records = []
    self.sim = sched.Sim(sched.SerialStrategy(), max_steps=2000000, keep_log=keep_log)
    self.sim.tracer = sched.Tracer(self.sim)
    self.inj = faults.Injector()
    self.remembered = {}      # (target name, opts key) -> op index where the failure was remembered
    self.failed_fns = {}      # (function identity, options) -> op index of its handled conversion failure
    self.cells = set()
    self.fault_cases = set()
    self.stats = {'ops': 0, 'faults_armed': 0, 'faults_fired': 0, 'fallbacks': 0, 'strict_raises': 0,
                  'converted_ops': 0, 'remembered_checks': 0, 'recoveries': 0}
    self.fired_kinds = []
    self.fired_detail = []

  def viol(self, rule, msg, sig):
    if len(self.violations) < 20:
      self.violations.append({'rule': rule, 'msg': msg, 'sig': sig})

  def _opts(self, o):
    malt = self.malt
    names = LISTS_FEATSET if o['feats'] == 9 else FEATSETS[o['feats'] % len(FEATSETS)]
    feats = tuple(getattr(malt.experimental.Feature, n) for n in names) or None
    return self.converter.ConversionOptions(recursive=o['rec'], user_requested=o['ur'],
                                            internal_convert_user_code=o['icuc'],
                                            optional_features=feats)

  @staticmethod
  def _okey(o):
    return (o['rec'], o['ur'], o['icuc'], o['feats'] if o['feats'] == 9 else o['feats'] % len(FEATSETS))

  def _args(self, t, idx, which):
    aset = ARGSETS[t.argsets] if isinstance(t.argsets, str) else t.argsets
    args, kwargs = aset[idx % len(aset)]
    if args and args[0] == '@tape':
      U = Z['A']['U'] if which == 'a' else Z['B']['U']
      args = (U.Tape([3, 1, 2]),) + tuple(args[1:])
    if args and args[0] == '@self':
      s = Z['selfs'][t.name][0 if which == 'a' else 1]
      args = (s,) + tuple(args[1:])
    # fresh copies: some targets mutate their arguments
    import copy
    args = tuple(copy.deepcopy(x) if isinstance(x, (list, dict)) else x for x in args)
    return args, (None if kwargs is None else dict(kwargs))

  # -- environment faults -----------------------------------------------------
  def _apply_env_fault(self, fault, t):
    import tempfile
    undo = []
    k = fault['kind']
    if k == 'src-gone':
      f = getattr(t.a, '__func__', t.a)
      f = getattr(f, 'func', f)
      code = getattr(f, '__code__', None) or getattr(getattr(type(t.a), '__call__', None), '__code__', None)
      path = code.co_filename if code is not None else None
      if path and os.path.exists(path) and path.startswith(self.lane.scratch):
        os.rename(path, path + '.gone')
        linecache.clearcache()
        undo.append(lambda: (os.rename(path + '.gone', path), linecache.clearcache(), _reregister_pseudo()))
    elif k == 'tmp-gone':
      old = tempfile.tempdir
      tempfile.tempdir = os.path.join(self.rdir, 'no-such-dir')
      undo.append(lambda: setattr(tempfile, 'tempdir', old))
    elif k == 'disk-full':
      df = faults.DiskFull(fault['budget'])
      df.install()
      undo.append(df.uninstall)
    return undo

  # -- one operation --------------------------------------------------------------
  def do_op(self, i, op):
    sim, api, ag_ctx = self.sim, self.api, self.ag_ctx
    t = Z['targets'][op['target']]
    opts = self._opts(op['opts'])
    okey = self._okey(op['opts'])
    args_a, kw_a = self._args(t, op['args'], 'a')
    args_b, kw_b = self._args(t, op['args'], 'b')
    fault = op.get('fault')
    rec = {'i': i, 'target': t.name, 'label': t.label}
    self.records.append(rec)
    self.stats['ops'] += 1
    # ---- reference: direct call on the twin ----
    _drain_logs(Z['B'])
    ob = common.outcome(t.b, *args_b, **(kw_b or {}))
    exp = (ob[0], _norm(ob[1]) if ob[0] == 'ok' else ob[1])
    exp_log = _drain_logs(Z['B'])
    # ---- the operation through the call wrapper ----
    _drain_logs(Z['A'])
    armed = None
    undo = []
    if fault is not None:
      self.stats['faults_armed'] += 1
      if fault['kind'] == 'stage-exc':
        armed = faults.Fault(fault['point'], fault['nth'], fault['when'], fault['exc'],
                             conv_k=fault.get('conv_k'))
        self.inj.arm(armed)
      else:
        undo = self._apply_env_fault(fault, t)
    if op.get('strict'):
      os.environ['AUTOGRAPH_STRICT_CONVERSION'] = '1'
    raised0 = len(self.inj.scope_raised)
    hits0 = dict(Z['overload_hits'])
    OBS['requests'] = []
    OBS['fallbacks'] = []
    OBS['events'] = []
    OBS['on'] = True
    w0 = len(common.WARNINGS)
    sim.point('op', i, 0)
    status = getattr(ag_ctx.Status, op['status'])
    try:
      with ag_ctx.ControlStatusCtx(status), common.optrace() as tr:
        if op['via_scope']:
          scope = common.unwrap_operator(self.fw.FunctionScope)('caller', 'fscope', self._scope_opts(op['opts']))
          oa = common.outcome(api.converted_call, t.a, args_a, kw_a, scope)
        else:
          oa = common.outcome(api.converted_call, t.a, args_a, kw_a, options=opts)
    finally:
      OBS['on'] = False
      os.environ.pop('AUTOGRAPH_STRICT_CONVERSION', None)
      if armed is not None:
        armed.active = False
      for u in undo[::-1]:
        u()
    got = (oa[0], _norm(oa[1]) if oa[0] == 'ok' else oa[1])
    got_log = _drain_logs(Z['A'])
    warns = [w[1] for w in common.WARNINGS[w0:]]
    requests = list(OBS['requests'])
    fallbacks = list(OBS['fallbacks'])
    if op['via_scope']:
      # the scope hands call_options() to callees: that is what the op ran under
      eff = {'rec': op['opts']['rec'], 'ur': False, 'icuc': op['opts']['rec'], 'feats': op['opts']['feats']}
    else:
      eff = op['opts']
    okey = self._okey(eff)
    eff_tuple = common._opts_tuple(self._opts(eff))
    # did the injected failure actually happen?
    fired = False
    if fault is not None:
      if fault['kind'] == 'stage-exc':
        fired = armed.fired
      else:
        # environment faults are observed through their effect: the pipeline
        # failed (fallback taken, or the error surfaced in strict mode)
        fired = bool(fallbacks) or (bool(op.get('strict')) and oa[0] == 'exc' and bool(requests))
      if fired:
        self.fired_kinds.append(fault['kind'])
        self.fired_detail.append([fault.get('point', fault['kind']), fault.get('when', '-'),
                                  fault.get('exc', '-'), fault['kind']])
    converted = any(isinstance(x, (list, tuple)) and x and x[0] in ('FunctionScope', 'with_function_scope')
                    for x in tr)
    # An injected stage failure means "the conversion failed" only if the pipeline let it: a pipeline that
    # absorbs the failure and still runs converted code has not failed, and owes neither fallback nor warning.
    # ("failed" = an exception left the transpiler's transform_function)
    absorbed = fired and fault['kind'] == 'stage-exc' and len(self.inj.scope_raised) == raised0 and not fallbacks
    if absorbed:
      self.stats['faults_absorbed'] = self.stats.get('faults_absorbed', 0) + 1
      fired = False
    rec.update({'got': got, 'exp': exp, 'requests': requests, 'warnings': len(warns), 'optrace': common.jsonable(tr)[:12],
                'fired': bool(fired), 'converted': converted, 'status': op['status'],
                'strict': bool(op.get('strict'))})
    sim.note('%s|%s|%s|%s' % (t.name, got[0], len(requests), len(warns)))
    where = 'op%d converted_call(%s, args#%d, %s, status=%s%s%s)' % (
        i, t.name, op['args'], 'scope' if op['via_scope'] else 'options', op['status'],
        ', strict' if op.get('strict') else '', ', fault=%s' % _fault_str(fault) if fault else '')
    # ---- T4 (any function, callees included): once a conversion failure of a function under
    # some options has been handled, no conversion of it under equal options is requested again
    import weakref
    for ev in OBS['events']:
      key = (ev[1], ev[2])
      if ev[0] == 'fb':
        if ev[1] not in Z['exempt_ids']:
          try:
            # "remembered" lasts as long as the function object lives: local functions and closures are
            # re-created on every call of their parent, and a dead one's address is soon reused
            self.failed_fns[key] = (i, weakref.ref(ev[4]))
          except TypeError:
            pass
      else:
        ent = self.failed_fns.get(key)
        if ent is not None and ent[1]() is ev[4] and not op.get('strict'):
          self.viol('T4', '%s: a conversion of %s under %s was requested again although its failure under equal '
                    'options was handled at op%d' % (where, ev[3], ev[2], ent[0]), 'callee-not-remembered')
          break
    OBS['events'] = []      # (drops the strong references to short-lived functions)
    rem_key = (_rem_id(t.a), eff_tuple)
    was_remembered = rem_key in self.remembered
    # whatever the call wrapper fell back on in this op is remembered from now on
    for fid_, otup, _ in fallbacks:
      if fid_ not in Z['exempt_ids']:
        self.remembered.setdefault((fid_, otup), i)
    # ---- T7 overloads of builtins are dispatched on every call ---------------------------
    if t.overload and op['status'] != 'DISABLED' and got[0] == 'ok':
      d = Z['overload_hits'].get(t.overload, 0) - hits0.get(t.overload, 0)
      self.stats['overload_checks'] = self.stats.get('overload_checks', 0) + 1
      if d != 1:
        self.viol('T7', '%s: the registered overload of builtin %s ran %d times (once is documented), '
                  'earlier calls of this builtin: %d' % (where, t.overload, d, hits0.get(t.overload, 0)),
                  'overload-dispatch-%d' % min(d, 2))
    # ---- T5 strict ------------------------------------------------------------------
    if op.get('strict') and fired:
      self.stats['strict_raises'] += 1
      # (the pipeline may wrap the failure, e.g. OSError -> InaccessibleSourceCodeError:
      # the type is not asserted, only that the failure is not swallowed)
      if got[0] != 'exc':
        self.viol('T5', '%s: strict mode, conversion failed, but the call returned %s' % (where, got), 'strict-returned')
      if len(got_log) > len(exp_log):
        self.viol('T5', '%s: strict mode invoked the target more than a direct call does' % where, 'strict-double')
      return
    natural = (t.label in ('unsupported', 'coroutine')) or (t.fails_under == 'LISTS' and eff['feats'] == 9)
    # strict mode + a target the pipeline rejects by itself: the rejection propagates
    # (also for targets whose convertibility the documents leave open - e.g. a frozen stdlib function
    # requested explicitly: whether its source is available is not for this check to say)
    strict_open = model_converts(t, eff, op['status'], False) is None
    if op.get('strict') and requests and not fallbacks and (natural or t.label == 'generator' or strict_open) \
        and got[0] == 'exc':
      self.stats['strict_raises'] += 1
      if len(got_log) > len(exp_log):
        self.viol('T5', '%s: strict mode invoked the target more than a direct call does' % where, 'strict-double')
      return
    # ---- T1 transparency ---------------------------------------------------------------
    if got != exp:
      self.viol('T1', '%s: wrapper gives %s, direct call gives %s' % (where, _short(got), _short(exp)),
                'result-%s-%s' % (t.label, 'fault' if fired else 'clean'))
    elif got_log != exp_log:
      self.viol('T1', '%s: side-effect log differs: wrapper %s, direct %s' % (where, _short(got_log), _short(exp_log)),
                'effects-%s-%s' % (t.label, 'fault' if fired else 'clean'))
    # ---- T3 fallback ---------------------------------------------------------------------
    if fired:
      self.stats['faults_fired'] += 1
      self.stats['fallbacks'] += 1
      pt = fault.get('point', fault['kind'])
      self.fault_cases.add((t.label, okey, op['status'], pt, fault.get('when', ''),
                            faults.exc_type_name(fault['exc']) if 'exc' in fault else fault['kind']))
      quiet_ok = ('exc' in fault and fault['exc'] in ('UnsupportedLanguageElementError',
                                                      'InaccessibleSourceCodeError'))
      if not warns and not quiet_ok and not was_remembered:
        self.viol('T3', '%s: conversion failed but no warning was emitted' % where, 'no-warning')
      if not fallbacks and not op.get('strict'):
        # the failure was swallowed some other way: T1 above already compared the outcome
        pass
      return
    # ---- T4 remembered -----------------------------------------------------------------------
    if was_remembered and op['status'] != 'DISABLED':
      self.stats['remembered_checks'] += 1
      if t.fnname and t.fnname in requests:
        self.viol('T4', '%s: a conversion of %s was requested again although its failure under equal options '
                  'was remembered at op%d' % (where, t.fnname, self.remembered[rem_key]), 'not-remembered')
      if any('could not transform' in w for w in warns):
        self.viol('T4', '%s: "could not transform" warning repeated for a remembered failure' % where, 'warned-again')
      return
    # ---- T2 policy -------------------------------------------------------------------------------
    exp_conv = model_converts(t, eff, op['status'], False)
    requested = bool(t.fnname and t.fnname in requests)
    cell = (t.label if t.label != 'partial' else 'partial>' + t.inner, eff['ur'], eff['icuc'], op['status'],
            t.module_rule or '')
    self.cells.add(cell)
    if exp_conv is True and not requested:
      # natural failure before the pipeline (e.g. source-less) cannot be told apart here: only the
      # labels for which conversion must at least be *attempted* are asserted
      self.viol('T2', '%s: policy says convert, but no conversion of %s was requested (requests: %s)'
                % (where, t.fnname, requests), 'not-converted-%s' % t.label)
    elif exp_conv is False and requested:
      self.viol('T2', '%s: policy says do not convert (%s), but a conversion of %s was requested'
                % (where, cell, t.fnname), 'converted-%s' % (t.label if t.label != 'partial' else t.inner))
    # ---- T3 for constructs the pipeline rejects by itself --------------------------------------
    if natural and fault is None and requested and exp_conv is True and t.fnname and \
        not any(fid_ == _rem_id(t.a) for fid_, _, _ in fallbacks):
      if op.get('strict'):
        if got[0] != 'exc':
          self.viol('T5', '%s: strict mode, the pipeline rejects this target, but the call returned %s'
                    % (where, _short(got)), 'strict-returned-natural')
      else:
        self.viol('T3', '%s: the pipeline rejects this construct (a conversion was requested), but the target was '
                  'not run through the fallback: no warning, nothing remembered' % where, 'rejected-construct-no-fallback')
    elif natural and fault is None and requested and not op.get('strict') and not warns and not was_remembered:
      self.viol('T3', '%s: the pipeline rejected the target but no warning was emitted' % where, 'no-warning-natural')
    # ---- T6 nothing poisoned ---------------------------------------------------------------
    # no failure was injected into this operation and the target is an ordinary
    # convertible one that was never remembered: a fallback here means an
    # earlier failure left something behind (or a running target's own
    # exception was mistaken for a conversion failure)
    if fault is None and not op.get('strict') and not natural and exp_conv is True \
        and t.label in ('function', 'lambda', 'callable_obj') \
        and any(fid_ == _rem_id(t.a) for fid_, _, _ in fallbacks):
      self.viol('T6', '%s: fell back to the unconverted target although nothing failed in this operation (%s)'
                % (where, [x[2] for x in fallbacks]), 'spurious-fallback')
    if requested and converted:
      self.stats['converted_ops'] += 1
    # T6 recovery is implicit: a target whose conversion failed under other options reaches T2 here
    if any(k[0] == _rem_id(t.a) for k in self.remembered) and exp_conv is True and requested and converted:
      self.stats['recoveries'] += 1

  def _scope_opts(self, o):
    malt = self.malt
    names = LISTS_FEATSET if o['feats'] == 9 else FEATSETS[o['feats'] % len(FEATSETS)]
    feats = tuple(getattr(malt.experimental.Feature, n) for n in names) or None
    return self.converter.ConversionOptions(recursive=o['rec'], user_requested=o['ur'],
                                            internal_convert_user_code=o['icuc'],
                                            optional_features=feats)

  def execute(self):
    plan = self.plan

    def target():
      wat = plan.get('wrapt_at') or 0
      saved = sys.modules.pop('wrapt', None) if wat else None
      try:
        for i, op in enumerate(plan['ops']):
          if wat and i == wat and saved is not None:
            sys.modules['wrapt'] = saved         # "import wrapt" happens here
            self.stats['late_wrapt_import'] = 1
          if wat and i < wat and op['target'] == 'wrapt':
            continue
          self.do_op(i, op)
      finally:
        if saved is not None:
          sys.modules['wrapt'] = saved
    self.sim.add_thread('client', target)
    return self.sim.run()


def _reregister_pseudo():
  """linecache.clearcache() (part of the src-gone fault) also forgets the
  sources registered for functions compiled under pseudo file names."""
  for P in (Z['A'], Z['B']):
    for name, src in getattr(P['U'], 'PSEUDO_SOURCES', {}).items():
      linecache.cache[name] = (len(src), None, src.splitlines(True), name)


def _fault_str(f):
  if f['kind'] == 'stage-exc':
    return '%s@%s#%d%s:%s' % (f['point'].split(':')[1], f['when'], f['nth'],
                              '/conv%d' % f['conv_k'] if f.get('conv_k') else '', f['exc'])
  return f['kind']


def _short(x):
  s = repr(x)
  return s if len(s) < 160 else s[:157] + '...'


def run_job(lane, job, rdir):
  plan = job['plan'] if job.get('mode') == 'explicit' else make_plan(
      job['seed'], job['index'], job['tier'], job['sub'])
  run = Run(lane, plan, rdir, job.get('keep_log', False))
  outcome = run.execute()
  sim = run.sim
  res = {
      'status': 'ok', 'violations': run.violations, 'digest': sim.digest(), 'steps': sim.steps,
      'switches': sim.switches, 'threads': 1, 'schedule': sim.segments, 'sim_outcome': outcome,
      'plan': plan,
      'faults_fired': run.fired_detail,
      'probes': sim.probes, 'switch_pairs': 0, 'stats': run.stats,
      'abstract': sorted(set('cell:%s' % (c,) for c in run.cells) | set('fault:%s' % (c,) for c in run.fault_cases)),
      'trace': {'0': ' '.join('%s%s%s' % (r['target'], '!' if r.get('fired') else '',
                                         '*' if r.get('converted') else '') for r in run.records)[:400]},
  }
  if job.get('keep_log'):
    res['log'] = sim.log
    res['records'] = common.jsonable(run.records)
  for t in sim.threads:
    if t.exc is not None:
      import traceback
      run.violations.append({'rule': 'HARNESS', 'sig': 'thread-died', 'msg': 'client died: %s' % (
          ''.join(traceback.format_exception(type(t.exc), t.exc, t.exc.__traceback__))[-1500:])})
  if outcome['status'] != 'ok':
    res['status'] = 'inconclusive'
    res['detail'] = outcome
  harness = [v for v in run.violations if v['rule'] == 'HARNESS']
  real = [v for v in run.violations if v['rule'] != 'HARNESS']
  if harness:
    res['status'] = 'harness_error'
    res['detail'] = harness[0]['msg']
  elif real:
    res['status'] = 'violation'
  res['nontrivial'] = None
  res['nontrivial_set'] = res['abstract']
  return res


def after_job(lane):
  """Lane-side: a child that died inside a src-gone window must not leave the
  pool file renamed."""
  base = os.path.join(lane.scratch, 'zygote')
  for root, _, files in os.walk(base):
    for f in files:
      if f.endswith('.py.gone'):
        p = os.path.join(root, f)
        os.rename(p, p[:-5])


def shrink_candidates(plan):
  import copy
  out = []
  n = len(plan['ops'])
  # halves first, then single ops
  if n > 4:
    for lo, hi in ((0, n // 2), (n // 2, n)):
      p = copy.deepcopy(plan)
      del p['ops'][lo:hi]
      out.append(('drop-ops-%d-%d' % (lo, hi), p, {}))
  for i in range(n):
    if n > 1:
      p = copy.deepcopy(plan)
      del p['ops'][i]
      out.append(('drop-op-%d' % i, p, {}))
  for i, op in enumerate(plan['ops']):
    if op.get('fault'):
      p = copy.deepcopy(plan)
      p['ops'][i]['fault'] = None
      out.append(('no-fault-%d' % i, p, {}))
    if op.get('strict'):
      p = copy.deepcopy(plan)
      p['ops'][i]['strict'] = False
      out.append(('no-strict-%d' % i, p, {}))
    if op.get('status') != 'UNSPECIFIED':
      p = copy.deepcopy(plan)
      p['ops'][i]['status'] = 'UNSPECIFIED'
      out.append(('unspec-%d' % i, p, {}))
    if op.get('via_scope'):
      p = copy.deepcopy(plan)
      p['ops'][i]['via_scope'] = False
      out.append(('options-%d' % i, p, {}))
  return out
